#!/bin/bash
# tools/seedconfirm.sh <PROP> <seedname> <patch> <demo_test.go> <pkgdir> <DemoTestName> [tags]
# Confirms a seeded change in a scratch worktree of /repo HEAD: (1) demo passes without the change,
# (2) with the change: builds (with and without slicelabels), demo fails, (3) the package's existing tests
# fail/pass exactly as without the change. Writes /verif/seeded/<seedname>/{patch.diff,demo,confirm.log}.
PROP=$1; NAME=$2; PATCH=$3; DEMO=$4; PKG=$5; TEST=$6; TAGS=${7:-}
OUT=/verif/seeded/$NAME; mkdir -p $OUT
WT=/tmp/cw-$NAME
export GOFLAGS=-mod=mod
git -C /repo worktree remove --force $WT 2>/dev/null
git -C /repo worktree add -q --detach $WT HEAD || exit 3
cp "$PATCH" $OUT/patch.diff; cp "$DEMO" $OUT/$(basename $DEMO)
cd $WT
TF=""; [ -n "$TAGS" ] && TF="-tags $TAGS"
log=$OUT/confirm.log; : > $log
run() { echo "\$ $*" >> $log; "$@" >> $log 2>&1; rc=$?; echo "exit=$rc" >> $log; return $rc; }
cp "$DEMO" $PKG/zz_seed_demo_test.go
run go test $TF -vet=off -count=1 -p 4 -run "^$TEST\$" ./$PKG/; demo_clean=$?
# existing tests, unchanged tree (names of failing tests)
go test $TF -vet=off -count=1 -p 4 -json ./$PKG/ 2>/dev/null | grep -E '"Action":"(fail|pass)"' | grep '"Test"' | grep -v SeedDemo | sed -E 's/.*"Action":"([a-z]+)".*"Test":"([^"]+)".*/\1 \2/' | sort -u > $OUT/tests_clean.txt
git apply "$PATCH" >> $log 2>&1 || { echo "RESULT $NAME patch-does-not-apply" | tee -a $log; cd /; git -C /repo worktree remove --force $WT; exit 3; }
run go build ./$PKG/; b1=$?
run go build -tags slicelabels ./$PKG/; b2=$?
run go test $TF -vet=off -count=1 -p 4 -run "^$TEST\$" ./$PKG/; demo_seeded=$?
go test $TF -vet=off -count=1 -p 4 -json ./$PKG/ 2>/dev/null | grep -E '"Action":"(fail|pass)"' | grep '"Test"' | grep -v SeedDemo | sed -E 's/.*"Action":"([a-z]+)".*"Test":"([^"]+)".*/\1 \2/' | sort -u > $OUT/tests_seeded.txt
newfail=$(comm -13 <(grep '^fail' $OUT/tests_clean.txt) <(grep '^fail' $OUT/tests_seeded.txt) | wc -l)
echo "RESULT $NAME prop=$PROP demo_clean_exit=$demo_clean demo_seeded_exit=$demo_seeded build=$b1/$b2 existing_tests_newly_failing=$newfail passing_clean=$(grep -c '^pass' $OUT/tests_clean.txt) passing_seeded=$(grep -c '^pass' $OUT/tests_seeded.txt)" | tee -a $log
comm -13 <(grep '^fail' $OUT/tests_clean.txt) <(grep '^fail' $OUT/tests_seeded.txt) | head >> $log
cd /; git -C /repo worktree remove --force $WT
