#!/usr/bin/env python3
"""Regenerates /verif/MANIFEST.json from specs/*.json (claimed checks) and na.json (not claimed).

A property is claimed iff specs/<ID>.json exists and has "registered": true.  Every other property of
properties.jsonl must have a reason in na.json (or gets the generic one) and goes to not_applicable.
"""
import json, os, sys, glob

root = os.path.dirname(os.path.dirname(os.path.abspath(__file__)))
props = [json.loads(l) for l in open(os.path.join(root, "properties.jsonl")) if l.strip()]
na = json.load(open(os.path.join(root, "na.json")))
checks, napp = [], []
for p in props:
    pid = p["id"]
    sp = os.path.join(root, "specs", pid + ".json")
    spec = json.load(open(sp)) if os.path.exists(sp) else None
    if spec and spec.get("registered"):
        mf = spec.get("manifest", {})
        entry = spec["harnesses"]
        fn = ", ".join(h["entry"] for h in entry)
        c = {
            "property_id": pid,
            "quick_cmd": "/verif/check %s quick" % pid,
            "thorough_cmd": "/verif/check %s thorough" % pid,
            "evidence_file": "/verif/evidence/%s.json" % pid,
            "replay_cmd_template": "/verif/check %s --replay {path}" % pid,
            "engine": "gosym",
            "level_claimed": {
                "category": "model_checking",
                "text": mf.get("text", "bounded symbolic execution of the real code; every assertion discharged by SMT as path-condition AND NOT(property) = unsat"),
                "design_ref": "DESIGN.md section 10.3 (as built: entries, bounds, assumptions) and section 5, " + pid + " (plan)",
            },
            "level_note": mf.get("note", "") + " Harness entries: " + fn + ". Assumptions: " + "; ".join(spec.get("assumptions", [])) + ". Outside the claim: " + "; ".join(spec.get("outside", [])) + ".",
            "technique": mf.get("technique", "symbolic execution of go/ssa of /repo + SMT (z3/cvc5), bounded; counterexamples replayed natively"),
        }
        checks.append(c)
    else:
        reason = na.get(pid)
        if not reason:
            reason = "encoding not completed in the time available: no harness for this property runs clean yet, so nothing is claimed"
        napp.append({"property_id": pid, "reason": reason})

m = {
    "version": 1,
    "setup_cmd": "/verif/build.sh",
    "hooks": {
        "guard": "verif",
        "enable": "no hook files exist in /repo: harnesses are overlay files (/verif/harness/<pkg>/zz_verif_*.go) added virtually with go/packages Overlay and `go test -overlay`; build tag `verif` is reserved for hooks and currently guards nothing",
        "baseline_off_cmd": "cd /repo && go test -mod=mod -vet=off -count=1 -timeout 25m ./...",
        "source_commits": [],
        "add_only": True,
    },
    "engines": [{
        "name": "gosym",
        "path": "/verif/engine",
        "serves_properties": [c["property_id"] for c in checks],
        "kind_free_text": "path-forking symbolic interpreter over go/ssa of the real /repo packages (loaded with go/packages on every run, production tag slicelabels), SMT-LIB2 to z3 4.8.12 incremental with z3 5.1/cvc5/cvc5-int portfolio on unknown; solver models replayed against the natively compiled code before a VIOLATION is printed",
    }],
    "checks": checks,
    "not_applicable": napp,
    "notes": "quick: exit 0 = every assertion unsat on every path of the stated bound (exhaustive) and all reachability witnesses hit. thorough: a larger bound explored under a 120 s per-harness budget; when the budget ends first a line 'PARTIAL property=<id> ...' says how many paths were explored and the exit code 0 speaks for those paths only (evidence exhaustive=false). exit 1 = counterexample replayed natively against /repo (VIOLATION line). exit 2 = inconclusive (solver unknown, unsupported instruction, unreached witness, unreproduced model): never reported as OK or VIOLATION. KNOWN-FINDING lines: see known_findings.json and DESIGN.md section 10.5. DESIGN.md section 10 is the as-built record.",
}
json.dump(m, open(os.path.join(root, "MANIFEST.json"), "w"), indent=1)
print("claimed:", " ".join(c["property_id"] for c in checks))
print("not applicable:", len(napp))
