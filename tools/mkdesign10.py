#!/usr/bin/env python3
"""Rebuilds section 10 of DESIGN.md from /verif/tools/design10/{head,mid,tail}.md, the specs and the evidence."""
import json, os, glob, subprocess, re
root = os.path.dirname(os.path.dirname(os.path.abspath(__file__)))
d10 = os.path.join(root, "tools", "design10")
tab = subprocess.run(["python3", os.path.join(root, "tools", "status_table.py")], capture_output=True, text=True).stdout
per = ["\n### 10.3 Per property: harness entries, quick bounds, measured exploration (from the evidence of the last quick run)\n",
       "Parameters are harness-specific sizes (numbers of stores, series, replicas, samples, bytes …); `paths` = feasible paths completed, `decisions` = solver-checked branches, concretisations, schedule choices. Thorough tiers use the next larger sizes (see `specs/<id>.json`) under the 120 s/harness budget.\n\n", tab, "\nAssumptions (A) and what lies outside each claim (O), as also written to every evidence file:\n"]
for sp in sorted(glob.glob(os.path.join(root, "specs", "C*.json"))):
    s = json.load(open(sp))
    if not s.get("registered"): continue
    per.append("\n* **%s** — %s\n  * A: %s\n  * O: %s\n" % (s["property"], s.get("manifest", {}).get("note", "").strip(), "; ".join(s.get("assumptions", [])) or "-", "; ".join(s.get("outside", [])) or "-"))
sec = open(os.path.join(d10, "head.md")).read() + "".join(per) + open(os.path.join(d10, "mid.md")).read() + open(os.path.join(d10, "tail.md")).read()
p = os.path.join(root, "DESIGN.md")
doc = open(p).read()
marker = "\n---------------------------------------------------------------------------\n\n## 10. AS BUILT"
i = doc.find(marker)
if i >= 0:
    doc = doc[:i]
open(p, "w").write(doc.rstrip("\n") + "\n" + sec)
print("DESIGN.md section 10 rebuilt:", len(sec), "chars")
