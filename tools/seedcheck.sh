#!/bin/bash
# tools/seedcheck.sh <ID> <patch> [tier]: apply a seeded change to /repo, run the property's check, undo it.
ID=$1; PATCH=$2; TIER=${3:-quick}
cd /repo || exit 3
if [ -n "$(git status --porcelain)" ]; then echo "repo dirty"; exit 3; fi
git apply "$PATCH" || { echo "SEED patch does not apply: $PATCH"; exit 3; }
mkdir -p /tmp/seedev
cp /verif/evidence/$ID.json /tmp/seedev/$ID.keep 2>/dev/null
t0=$(date +%s)
/verif/check $ID $TIER > /tmp/seedev/$ID.out 2>/tmp/seedev/$ID.err; rc=$?
t1=$(date +%s)
cp /verif/evidence/$ID.json /tmp/seedev/$ID.seeded.json 2>/dev/null
cp /tmp/seedev/$ID.keep /verif/evidence/$ID.json 2>/dev/null
git checkout -- . 
echo "SEED $ID $(basename $(dirname $PATCH))/$(basename $PATCH) tier=$TIER exit=$rc time=$((t1-t0))s"
grep -E "^(VIOLATION|INCONCLUSIVE|KNOWN|OK)" /tmp/seedev/$ID.out | head -5
grep -E "violation .*assertion" /tmp/seedev/$ID.err | sed 's/inputs=.*//' | sort | uniq -c | head -8
exit $rc
