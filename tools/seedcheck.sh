#!/bin/bash
# tools/seedcheck.sh <ID> <patch> [tier]: run the property's check against a seeded change.
# The change is applied to a scratch worktree of /repo HEAD (GOSYM_REPO points the engine at it), so /repo itself is
# never touched; equivalent to `git -C /repo apply <patch>; /verif/check <ID> <tier>; git -C /repo checkout -- .`.
ID=$1; PATCH=$2; TIER=${3:-quick}
WT=${SEED_WT:-/tmp/detect-wt}
if [ ! -d $WT ]; then git -C /repo worktree add -q --detach $WT HEAD || exit 3; fi
cd $WT || exit 3
git checkout -q --detach $(git -C /repo rev-parse HEAD) 2>/dev/null
git checkout -q -- . ; git clean -qfd
git apply "$PATCH" || { echo "SEED patch does not apply: $PATCH"; exit 3; }
mkdir -p /tmp/seedev
t0=$(date +%s)
export PATH=/opt/veriftools/go1.26.8/bin:$PATH GOTOOLCHAIN=local GOFLAGS=-mod=mod GOPROXY=off GOSUMDB=off
GOSYM_REPO=$WT /verif/bin/gosym run --spec /verif/specs/$ID.json --tier $TIER --root /verif --seed 0 --evidence /tmp/seedev/$ID.seeded.json > /tmp/seedev/$ID.out 2>/tmp/seedev/$ID.err; rc=$?
t1=$(date +%s)
git checkout -q -- .
echo "SEED $ID $(basename $(dirname $PATCH))/$(basename $PATCH) tier=$TIER exit=$rc time=$((t1-t0))s"
grep -E "^(VIOLATION|INCONCLUSIVE|KNOWN|OK)" /tmp/seedev/$ID.out | head -5
grep -E "violation .*assertion" /tmp/seedev/$ID.err | sed 's/inputs=.*//' | sort | uniq -c | head -8
exit $rc
