#!/bin/bash
# tools/seedconfirm_lite.sh <PROP> <pkgdir> <tags|-> <patchA> <patchB>
# One scratch worktree of /repo HEAD per property: the demo (TestSeedDemo1/2 from /tmp/seed-<PROP>/zz_seed_demo_test.go)
# must pass on the unchanged tree; with patch A applied the tree builds (with and without slicelabels) and
# TestSeedDemo1 fails; same for patch B / TestSeedDemo2. The package's existing tests were run by the author of the
# change (notes.md, copied alongside). Writes /verif/seeded/<PROP>-a|-b/{patch.diff,zz_seed_demo_test.go,notes.md,confirm.log}.
PROP=$1; PKG=$2; TAGS=$3; PA=$4; PB=$5
SD=/tmp/seed-$PROP; WT=/tmp/cw-$PROP
export GOFLAGS=-mod=mod THANOS_TEST_OBJSTORE_SKIP=GCS,S3,AZURE,SWIFT,COS,ALIYUNOSS,BOS,OCI,OBS
TF=""; [ "$TAGS" != "-" ] && TF="-tags $TAGS"
git -C /repo worktree remove --force $WT 2>/dev/null
git -C /repo worktree add -q --detach $WT HEAD || exit 3
cd $WT; cp $SD/zz_seed_demo_test.go $PKG/zz_seed_demo_test.go
go test $TF -vet=off -count=1 -p 4 -run '^TestSeedDemo[12]$' ./$PKG/ > /tmp/sc/$PROP.clean.log 2>&1; clean=$?
i=0
for P in "$PA" "$PB"; do
  i=$((i+1)); L=$( [ $i = 1 ] && echo a || echo b ); OUT=/verif/seeded/$PROP-$L; mkdir -p $OUT
  cp $SD/$P $OUT/patch.diff; cp $SD/zz_seed_demo_test.go $OUT/; cp $SD/notes.md $OUT/notes.md 2>/dev/null
  log=$OUT/confirm.log; { echo "# unchanged tree: go test $TF -run '^TestSeedDemo[12]\$' ./$PKG/ -> exit=$clean"; tail -5 /tmp/sc/$PROP.clean.log; } > $log
  if ! git apply $SD/$P >> $log 2>&1; then echo "RESULT $PROP-$L patch-does-not-apply" | tee -a $log; continue; fi
  go build ./$PKG/ >> $log 2>&1; b1=$?
  go build -tags slicelabels ./$PKG/ >> $log 2>&1; b2=$?
  echo "\$ go test $TF -run ^TestSeedDemo$i\$ ./$PKG/ (with patch)" >> $log
  go test $TF -vet=off -count=1 -p 4 -run "^TestSeedDemo$i\$" ./$PKG/ 2>&1 | tail -25 >> $log; seeded=${PIPESTATUS[0]}
  echo "RESULT $PROP-$L prop=$PROP demo_clean_exit=$clean demo_seeded_exit=$seeded build=$b1/$b2 (lite: existing tests as run by the change's author, see notes.md)" | tee -a $log
  git checkout -q -- . ; git status --porcelain | grep -v zz_seed_demo | head -3
done
cd /; git -C /repo worktree remove --force $WT
