#!/usr/bin/env python3
import json,sys
e=json.load(open(sys.argv[1])); c=e['coverage']
print(e['property_id'],e['tier'],'wall',round(e['wall_s'],1),'states',c['states'],'viol',e['violations'],'validated',c['traces_validated_against_impl'])
for k,v in sorted(c['assertions'].items()): print('  ',k,v)
print('  ends',c['path_ends'],'queries',c['queries'])
for s in c['inconclusive']: print('  INCONCLUSIVE',s[:300])
for s in c['samples']:
    if 'violation' in s: print('  viol',s['violation'],s['replayed'],s['inputs'],s['choices'])
