#!/opt/veriftools/pyvenv/bin/python3
import json, jsonschema, sys, glob
m = json.load(open('/verif/MANIFEST.json'))
jsonschema.validate(m, json.load(open('/root/.vp/MANIFEST.schema.json')))
es = json.load(open('/root/.vp/EVIDENCE.schema.json'))
bad = 0
for c in m['checks']:
    try:
        jsonschema.validate(json.load(open(c['evidence_file'])), es)
    except Exception as e:
        bad += 1
        print('EVIDENCE INVALID', c['property_id'], str(e)[:200])
print('manifest valid; checks=%d bad-evidence=%d' % (len(m['checks']), bad))
sys.exit(1 if bad else 0)
