#!/usr/bin/env python3
"""Writes /verif/seeded/<name>/meta.json for every seeded change from notes.md (author's notes), confirm.log
(my confirmation in a scratch worktree) and seeded/detection.json (what the checks did with the change applied)."""
import json, os, re, glob
root = os.path.dirname(os.path.dirname(os.path.abspath(__file__)))
det = json.load(open(os.path.join(root, "seeded", "detection.json")))
rows = []
for d in sorted(glob.glob(os.path.join(root, "seeded", "C*-[ab]"))):
    name = os.path.basename(d); prop, which = name.split("-"); n = 1 if which == "a" else 2
    notes = ""
    for cand in (os.path.join(d, "notes.md"), "/tmp/seed-%s/notes.md" % prop):
        if os.path.exists(cand):
            notes = open(cand, errors="replace").read()
            if cand.startswith("/tmp"):
                open(os.path.join(d, "notes.md"), "w").write(notes)
            break
    # section of this patch
    parts = re.split(r"\n(?=#+ .*(?:[Pp]atch ?%d|[Cc]hange ?%d|patch%d))" % (n, n, n), notes)
    sec = parts[1] if len(parts) > 1 else notes
    sec = re.split(r"\n(?=#+ .*(?:[Pp]atch ?%d|[Cc]hange ?%d|patch%d))" % (3 - n, 3 - n, 3 - n), sec)[0]
    m = re.search(r"(?is)(what is needed|needed (?:for it )?to manifest|to manifest|trigger|manifests? (?:only )?when|needs?:)(.{0,900})", sec)
    needs = (m.group(0) if m else sec[:900]).strip()
    needs = re.sub(r"\s+", " ", needs)[:900]
    files = sorted(set(re.findall(r"^\+\+\+ b/(\S+)", open(os.path.join(d, "patch.diff")).read(), re.M))) if os.path.exists(os.path.join(d, "patch.diff")) else []
    conf = ""
    cl = os.path.join(d, "confirm.log")
    if os.path.exists(cl):
        r = [l for l in open(cl, errors="replace") if l.startswith("RESULT")]
        conf = r[-1].strip() if r else ""
    dd = det.get(name, {})
    meta = {"property": prop, "seed": name, "files_changed": files,
            "what_it_needs_to_manifest": needs,
            "author_notes": "notes.md (what was run by the author of the change: builds with and without -tags slicelabels, existing tests of the touched package, demo with and without the change)",
            "confirmed_by_me": conf or "not re-run",
            "commands_run_for_detection": "git -C /repo apply seeded/%s/patch.diff; /verif/check %s %s; git -C /repo checkout -- ." % (name, dd.get("check", prop), dd.get("tier", "quick")),
            "detection": dd.get("result", "not run"), "detection_note": dd.get("note", "")}
    json.dump(meta, open(os.path.join(d, "meta.json"), "w"), indent=1)
    rows.append((name, ", ".join(files), dd.get("result", "not run"), dd.get("note", "")))
with open(os.path.join(root, "seeded", "README.md"), "w") as f:
    f.write("# Seeded changes (property-breaking mutations written by sub-agents that saw only the property text)\n\n")
    f.write("| seed | files | result of the check with the change applied | note |\n|---|---|---|---|\n")
    for r in rows:
        f.write("| %s | %s | %s | %s |\n" % r)
print(len(rows), "seeds")
