#!/usr/bin/env python3
"""Prints the as-built status table (markdown) from specs/*.json and /tmp/thor/evidence.bak or evidence/*.json."""
import json, os, sys, glob
root = os.path.dirname(os.path.dirname(os.path.abspath(__file__)))
evdir = sys.argv[1] if len(sys.argv) > 1 else os.path.join(root, "evidence")
print("| id | harness entries (quick bounds) | paths | decisions | solver queries | solver s | wall s |")
print("|---|---|---|---|---|---|---|")
for sp in sorted(glob.glob(os.path.join(root, "specs", "C*.json"))):
    s = json.load(open(sp))
    if not s.get("registered"): continue
    pid = s["property"]
    try:
        e = json.load(open(os.path.join(evdir, pid + ".json")))
    except Exception:
        e = None
    hs = []
    for h in s["harnesses"]:
        q = {k: v for k, v in h.get("quick", {}).items()}
        hs.append("%s(%s)" % (h["entry"].replace("Verif", ""), ",".join("%s=%s" % kv for kv in q.items())))
    if e:
        c = e["coverage"]
        q = c.get("queries"); 
        if isinstance(q, dict): q = q.get("total", q)
        print("| %s | %s | %s | %s | %s | %s | %.0f |" % (pid, "; ".join(hs), c.get("states"), c.get("transitions"), q, round(c.get("solver_time_s") if not isinstance(c.get("solver_time_s"), dict) else sum(c["solver_time_s"].values())), e.get("wall_s", 0)))
    else:
        print("| %s | %s | - | - | - | - | - |" % (pid, "; ".join(hs)))
