package block

import (
	"bytes"
	"sort"
	"context"
	"errors"
	"io"
	"strings"
	"time"

	"github.com/thanos-io/objstore"
)

// verifBucket: in-memory objstore.Bucket with concrete object names, per-object modification times and a log
// of mutating operations.
type verifObject struct {
	name     string
	modified time.Time
	present  bool
}

type verifBucket struct {
	objs     []*verifObject
	deleted  []string
	uploads  []string
	failAt   int    // the failAt-th mutating operation (1-based) fails / the process crashes there; 0 = never
	mutates  int
	onMutate func() // invariant check after every successful mutation (= every possible crash point)
}

var errVerifFault = errors.New("injected fault")

var errVerifNotFound = errors.New("object not found")

func (b *verifBucket) find(name string) *verifObject {
	for _, o := range b.objs {
		if o.name == name && o.present {
			return o
		}
	}
	return nil
}

func (b *verifBucket) Close() error                  { return nil }
func (b *verifBucket) Provider() objstore.ObjProvider { return objstore.MEMORY }
func (b *verifBucket) Name() string                  { return "verif" }
func (b *verifBucket) Upload(_ context.Context, name string, r io.Reader, _ ...objstore.ObjectUploadOption) error {
	b.uploads = append(b.uploads, name)
	if o := b.find(name); o == nil {
		b.objs = append(b.objs, &verifObject{name: name, present: true})
	}
	return nil
}
func (b *verifBucket) Delete(_ context.Context, name string) error {
	o := b.find(name)
	if o == nil {
		return errVerifNotFound
	}
	b.mutates++
	if b.failAt > 0 && b.mutates >= b.failAt {
		return errVerifFault
	}
	o.present = false
	b.deleted = append(b.deleted, name)
	if b.onMutate != nil {
		b.onMutate()
	}
	return nil
}
func (b *verifBucket) list(dir string, recursive bool) []*verifObject {
	prefix := dir
	if prefix != "" && !strings.HasSuffix(prefix, objstore.DirDelim) {
		prefix += objstore.DirDelim
	}
	var out []*verifObject
	seenDir := map[string]bool{}
	for _, o := range b.objs {
		if !o.present || !strings.HasPrefix(o.name, prefix) {
			continue
		}
		rest := o.name[len(prefix):]
		if i := strings.Index(rest, objstore.DirDelim); i >= 0 && !recursive {
			d := prefix + rest[:i+1]
			if !seenDir[d] {
				seenDir[d] = true
				out = append(out, &verifObject{name: d})
			}
			continue
		}
		out = append(out, o)
	}
	// objstore contract: entries are passed in sorted order
	sort.Slice(out, func(i, j int) bool { return out[i].name < out[j].name })
	return out
}
func (b *verifBucket) Iter(_ context.Context, dir string, f func(string) error, options ...objstore.IterOption) error {
	p := objstore.ApplyIterOptions(options...)
	for _, o := range b.list(dir, p.Recursive) {
		if err := f(o.name); err != nil {
			return err
		}
	}
	return nil
}
func (b *verifBucket) IterWithAttributes(_ context.Context, dir string, f func(objstore.IterObjectAttributes) error, options ...objstore.IterOption) error {
	p := objstore.ApplyIterOptions(options...)
	for _, o := range b.list(dir, p.Recursive) {
		a := objstore.IterObjectAttributes{Name: o.name}
		if p.LastModified {
			a.SetLastModified(o.modified)
		}
		if err := f(a); err != nil {
			return err
		}
	}
	return nil
}
func (b *verifBucket) SupportedIterOptions() []objstore.IterOptionType {
	return []objstore.IterOptionType{objstore.Recursive, objstore.UpdatedAt}
}
func (b *verifBucket) Get(_ context.Context, name string) (io.ReadCloser, error) {
	if b.find(name) == nil {
		return nil, errVerifNotFound
	}
	return io.NopCloser(bytes.NewReader(nil)), nil
}
func (b *verifBucket) GetRange(ctx context.Context, name string, _, _ int64) (io.ReadCloser, error) {
	return b.Get(ctx, name)
}
func (b *verifBucket) Exists(_ context.Context, name string) (bool, error) {
	return b.find(name) != nil, nil
}
func (b *verifBucket) IsObjNotFoundErr(err error) bool  { return err == errVerifNotFound }
func (b *verifBucket) IsAccessDeniedErr(err error) bool { return false }
func (b *verifBucket) Attributes(_ context.Context, name string) (objstore.ObjectAttributes, error) {
	o := b.find(name)
	if o == nil {
		return objstore.ObjectAttributes{}, errVerifNotFound
	}
	return objstore.ObjectAttributes{LastModified: o.modified}, nil
}
