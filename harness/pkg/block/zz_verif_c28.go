package block

import (
	"context"

	"github.com/go-kit/log"
	"github.com/oklog/ulid/v2"
)

// VerifC28Delete: deleting a block, with a crash/fault at any bucket operation and a later retry: at every
// intermediate state a block whose meta.json is present has all its files, and once meta.json is gone the
// deletion mark stays until every other object of the block is gone.
func VerifC28Delete() {
	id := ulid.ULID{15: 3}
	dir := id.String()
	nseg := verifIntRange("segments", 1, verifParam("SEG", 2))
	bkt := &verifBucket{}
	files := []string{dir + "/meta.json", dir + "/index"}
	segs := [3]string{"/chunks/000001", "/chunks/000002", "/chunks/000003"}
	for i := 0; i < nseg; i++ {
		files = append(files, dir+segs[i])
	}
	hasMark := verifIntRange("deletionMark", 0, 1) == 1
	if hasMark {
		files = append(files, dir+"/deletion-mark.json")
	}
	// the starting state is a complete block, or what an earlier interrupted deletion left behind
	partial := verifIntRange("startsPartial", 0, 1) == 1
	for _, f := range files {
		present := true
		if partial && f != dir+"/deletion-mark.json" {
			if f == dir+"/meta.json" {
				present = false // deletion removes meta.json first
			} else {
				present = verifIntRange("present_"+f[len(dir):], 0, 1) == 1
			}
		}
		bkt.objs = append(bkt.objs, &verifObject{name: f, present: present})
	}
	data := files[1 : 2+nseg]
	check := func() {
		metaPresent := bkt.find(dir+"/meta.json") != nil
		anyData, allData := false, true
		for _, f := range data {
			if bkt.find(f) != nil {
				anyData = true
			} else {
				allData = false
			}
		}
		if metaPresent {
			verifAssert(allData, "block-with-meta-json-has-all-its-files")
		}
		if hasMark && !metaPresent && anyData {
			verifAssert(bkt.find(dir+"/deletion-mark.json") != nil, "deletion-mark-kept-until-other-files-are-gone")
		}
	}
	bkt.onMutate = check
	check()
	// first attempt, possibly interrupted
	bkt.failAt = verifIntRange("failAtOperation", 0, 2+nseg+1)
	err := Delete(context.Background(), log.NewNopLogger(), bkt, id)
	if bkt.failAt == 0 || bkt.mutates < bkt.failAt {
		verifAssert(err == nil, "uninterrupted-delete-succeeds")
	} else {
		verifReach("interrupted")
	}
	// retry after the crash: runs to completion
	bkt.failAt, bkt.mutates = 0, 0
	err = Delete(context.Background(), log.NewNopLogger(), bkt, id)
	verifAssert(err == nil, "retried-delete-succeeds")
	for _, f := range files {
		verifAssert(bkt.find(f) == nil, "everything-deleted-in-the-end")
	}
	verifReach("end")
}
