package block

import (
	"github.com/oklog/ulid/v2"

	"github.com/thanos-io/thanos/pkg/block/metadata"
)

func verifC31Hidden(f *DefaultDeduplicateFilter, metas []*metadata.Meta) map[ulid.ULID]bool {
	ch := make(chan ulid.ULID, 16)
	f.filterGroup(metas, ch)
	close(ch)
	h := map[ulid.ULID]bool{}
	for id := range ch {
		h[id] = true
	}
	return h
}

// VerifC31FilterGroup: a block is hidden only if ONE kept block was built from all of its sources; the kept
// blocks still cover every source; the hidden set does not depend on the listing order (nor on how the
// unstable sort breaks ties).
func VerifC31FilterGroup() {
	n := verifIntRange("blocks", 1, verifParam("N", 3))
	metas := make([]*metadata.Meta, n)
	for i := 0; i < n; i++ {
		m := &metadata.Meta{}
		// block ULIDs: distinct (entropy byte), timestamp part may coincide
		tb := verifByte(verifName("idtime", i))
		verifAssume(tb >= 1)
		verifAssume(tb <= 2)
		m.ULID = ulid.ULID{5: tb, 15: byte(i + 1)}
		ns := verifIntRange(verifName("sources", i), 1, verifParam("S", 2))
		for j := 0; j < ns; j++ {
			sb := verifByte(verifName("src", i, j))
			verifAssume(sb >= 1)
			verifAssume(sb <= byte(verifParam("SRC", 3)))
			// sources of one block are distinct
			for _, prev := range m.Compaction.Sources {
				verifAssume(prev[15] != sb)
			}
			m.Compaction.Sources = append(m.Compaction.Sources, ulid.ULID{15: sb})
		}
		metas[i] = m
	}
	f := NewDeduplicateFilter(1)
	in1 := append([]*metadata.Meta{}, metas...)
	hidden := verifC31Hidden(f, in1)
	// second listing order
	avail := append([]*metadata.Meta{}, metas...)
	var perm []*metadata.Meta
	for len(avail) > 0 {
		c := verifIntRange(verifName("perm", len(perm)), 0, len(avail)-1)
		perm = append(perm, avail[c])
		avail = append(avail[:c:c], avail[c+1:]...)
	}
	hidden2 := verifC31Hidden(f, perm)
	for _, m := range metas {
		verifAssert(hidden[m.ULID] == hidden2[m.ULID], "hidden-set-independent-of-listing-order")
	}
	keptAny := false
	for _, m := range metas {
		if !hidden[m.ULID] {
			keptAny = true
			continue
		}
		// some single kept block contains all sources of m
		covered := false
		for _, k := range metas {
			if hidden[k.ULID] || k == m {
				continue
			}
			all := true
			for _, s := range m.Compaction.Sources {
				in := false
				for _, ks := range k.Compaction.Sources {
					in = verifAny(in, ks[15] == s[15])
				}
				all = verifAll(all, in)
			}
			covered = verifAny(covered, all)
		}
		verifAssert(covered, "hidden-block-covered-by-one-kept-block")
		verifReach("hidden")
	}
	verifAssert(keptAny, "some-block-kept")
	verifReach("end")
}
