package block

import (
	"bytes"
	"encoding/json"
	"context"
	"errors"
	"io"
	"strings"

	"github.com/go-kit/log"
	"github.com/oklog/ulid/v2"
	"github.com/thanos-io/objstore"

	"github.com/thanos-io/thanos/pkg/block/metadata"
)

// bucket with object contents and injected transient read failures
type verifC33Bucket struct {
	verifBucket
	content  map[string][]byte
	failGet  string
	failBody string // Get of this object succeeds but reading its body breaks // Get of this object fails with a transient error
	failIter bool   // listing fails
}

var errVerifTransient = errors.New("transient read failure")

func (b *verifC33Bucket) Get(_ context.Context, name string) (io.ReadCloser, error) {
	if name == b.failGet {
		return nil, errVerifTransient
	}
	if b.find(name) == nil {
		return nil, errVerifNotFound
	}
	if name == b.failBody {
		return io.NopCloser(verifC33BrokenBody{}), nil
	}
	return io.NopCloser(bytes.NewReader(b.content[name])), nil
}
type verifC33BrokenBody struct{}

func (verifC33BrokenBody) Read([]byte) (int, error) { return 0, errVerifTransient }

func (b *verifC33Bucket) Iter(ctx context.Context, dir string, f func(string) error, options ...objstore.IterOption) error {
	if b.failIter {
		return errVerifTransient
	}
	return b.verifBucket.Iter(ctx, dir, f, options...)
}
func (b *verifC33Bucket) IterWithAttributes(ctx context.Context, dir string, f func(objstore.IterObjectAttributes) error, options ...objstore.IterOption) error {
	if b.failIter {
		return errVerifTransient
	}
	return b.verifBucket.IterWithAttributes(ctx, dir, f, options...)
}
func (b *verifC33Bucket) ReaderWithExpectedErrs(objstore.IsOpFailureExpectedFunc) objstore.BucketReader {
	return b
}
func (b *verifC33Bucket) WithExpectedErrs(objstore.IsOpFailureExpectedFunc) objstore.Bucket { return b }

// meta.json / marker stand-in for encoding/json: the object bytes are the block's ULID (16 raw bytes); anything
// shorter is a corrupted file
func verifC33Unmarshal(data []byte, v any) error {
	switch m := v.(type) {
	case *metadata.Meta:
		if len(data) < 16 {
			return errors.New("unexpected end of JSON input")
		}
		copy(m.ULID[:], data[:16])
		m.Version = metadata.TSDBVersion1
		m.MinTime, m.MaxTime = 0, 7200000
		m.Compaction.Level = 1
		m.Thanos.Version = metadata.ThanosVersion1
		return nil
	}
	return errors.New("verif: unexpected JSON target")
}

// the engine's stand-in encoding, or (native replay, where encoding/json itself runs) real JSON
func verifC33MetaBytes(id ulid.ULID) []byte {
	if verifNative() {
		m := metadata.Meta{}
		m.ULID = id
		m.Version = metadata.TSDBVersion1
		m.MinTime, m.MaxTime = 0, 7200000
		m.Compaction.Level = 1
		m.Thanos.Version = metadata.ThanosVersion1
		b, err := json.Marshal(&m)
		if err != nil {
			panic(err)
		}
		return b
	}
	return append([]byte{}, id[:]...)
}

// VerifC33Fetch (C33, fetch half): if reading any block's meta.json or the listing fails transiently, the sync
// reports an error (incomplete view) instead of a view that silently lacks blocks; without failures every
// block with a readable meta.json is in the view and blocks without one are reported partial.
func VerifC33Fetch() {
	n := verifIntRange("blocks", 1, verifParam("BLOCKS", 2))
	bkt := &verifC33Bucket{content: map[string][]byte{}}
	var ids []ulid.ULID
	hasMeta := make([]bool, n)
	for i := 0; i < n; i++ {
		id := ulid.ULID{15: byte(i + 1)}
		ids = append(ids, id)
		dir := id.String()
		bkt.objs = append(bkt.objs, &verifObject{name: dir + "/index", present: true})
		switch verifIntRange(verifName("meta", i), 0, 2) {
		case 0: // complete block
			hasMeta[i] = true
			bkt.objs = append(bkt.objs, &verifObject{name: dir + "/meta.json", present: true})
			bkt.content[dir+"/meta.json"] = verifC33MetaBytes(id)
		case 1: // upload in progress: no meta.json yet
		default: // corrupted meta.json
			bkt.objs = append(bkt.objs, &verifObject{name: dir + "/meta.json", present: true})
			bkt.content[dir+"/meta.json"] = []byte{1}
		}
	}
	failing := -1
	switch verifIntRange("failure", 0, 3) {
	case 1:
		failing = verifIntRange("failingBlock", 0, n-1)
		bkt.failGet = ids[failing].String() + "/meta.json"
	case 2:
		bkt.failIter = true
	case 3:
		failing = verifIntRange("failingBlock", 0, n-1)
		bkt.failBody = ids[failing].String() + "/meta.json"
	}
	f, err := NewMetaFetcher(log.NewNopLogger(), 1, bkt, NewRecursiveLister(log.NewNopLogger(), bkt), "", nil, nil)
	verifAssert(err == nil, "fetcher-built")
	if err != nil {
		return
	}
	metas, partial, err := f.Fetch(context.Background())
	readFails := bkt.failIter || (failing >= 0 && (bkt.find(bkt.failGet) != nil || bkt.find(bkt.failBody) != nil))
	if readFails {
		verifAssert(err != nil, "failed-read-gives-incomplete-view-error")
		verifReach("incomplete-view")
	} else {
		verifAssert(err == nil, "no-failure-no-error")
		for i, id := range ids {
			_, in := metas[id]
			_, part := partial[id]
			verifAssert(in == hasMeta[i], "view-holds-exactly-the-complete-blocks")
			verifAssert(part == !hasMeta[i], "incomplete-blocks-reported-partial")
		}
		verifReach("complete-view")
	}
	verifAssert(len(bkt.uploads) == 0 && len(bkt.deleted) == 0, "sync-mutates-nothing")
	_ = strings.TrimSpace
	verifReach("end")
}

// ulid.Parse is `return id, parse(..., &id)`: gc reads id after the call, go/ssa (which the engine executes) before
// it, so under go/ssa's (also permitted) evaluation order the result would be the zero ULID. Same function with
// the order made explicit.
func verifULIDParse(s string) (ulid.ULID, error) {
	var id ulid.ULID
	err := id.UnmarshalText([]byte(s))
	return id, err
}
