package block

import (
	"github.com/oklog/ulid/v2"

	"github.com/thanos-io/thanos/pkg/block/metadata"
)

// VerifSetDeletionMarks installs the deletion-mark view of an IgnoreDeletionMarkFilter directly (what its
// Filter would have gathered from the bucket), for harnesses of other packages.
func VerifSetDeletionMarks(f *IgnoreDeletionMarkFilter, m map[ulid.ULID]*metadata.DeletionMark) {
	f.deletionMarkMap = m
}
