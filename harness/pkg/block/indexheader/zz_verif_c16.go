package indexheader

import (
	"context"
	"sync"
	"time"

	"github.com/go-kit/log"
	"github.com/oklog/ulid/v2"
	"github.com/thanos-io/objstore"
)

// The file-backed BinaryReader is replaced by a token: loading hands out a fresh reader, Close marks it closed,
// a lookup on it checks that it is still open. The lazy wrapper's locking protocol is the code under test.
var (
	verifC16Closed  = map[*BinaryReader]bool{}
	verifC16Loads   int
	verifC16FailNow bool
)

func verifC16NewBinaryReader(context.Context, log.Logger, objstore.BucketReader, string, ulid.ULID, int, *BinaryReaderMetrics) (*BinaryReader, error) {
	verifC16Loads++
	return &BinaryReader{}, nil
}

func verifC16Close(r *BinaryReader) error {
	verifAssert(!verifC16Closed[r], "header-closed-twice")
	verifC16Closed[r] = true
	return nil
}

func verifC16LabelNames(r *BinaryReader) ([]string, error) {
	verifAssert(!verifC16Closed[r], "lookup-answered-from-a-closed-header")
	verifYield()
	verifAssert(!verifC16Closed[r], "header-closed-during-a-lookup")
	return []string{"a"}, nil
}

// VerifC16Lazy (C16): concurrent lookups, idle-unload sweeps and closes on one lazily loaded index header:
// every lookup is answered by an open header (the same answer an always-loaded header gives) or fails cleanly;
// no header is closed twice or while a lookup uses it; what stays loaded at the end is open.
func VerifC16Lazy() {
	verifC16Closed = map[*BinaryReader]bool{}
	verifC16Loads = 0
	r, err := NewLazyBinaryReader(context.Background(), log.NewNopLogger(), nil, "", ulid.ULID{15: 1}, 1, NewLazyBinaryReaderMetrics(nil), NewBinaryReaderMetrics(nil), nil, false)
	verifAssert(err == nil, "lazy-reader-built")
	if err != nil {
		return
	}
	if verifIntRange("preloaded", 0, 1) == 1 {
		_, err := r.LabelNames()
		verifAssert(err == nil, "first-lookup-loads")
	}
	lookups := verifParam("LOOKUPS", 2)
	sweeps := verifParam("SWEEPS", 1)
	var wg sync.WaitGroup
	for i := 0; i < lookups; i++ {
		wg.Add(1)
		go func() {
			defer wg.Done()
			names, err := r.LabelNames()
			if err == nil {
				verifAssert(len(names) == 1 && names[0] == "a", "lookup-answer-equals-the-loaded-header's")
				verifReach("lookup-answered")
			} else {
				verifAssert(err == errUnloadedWhileLoading, "lookup-fails-only-with-the-clean-unloaded-error")
				verifReach("lookup-clean-error")
			}
		}()
	}
	for i := 0; i < sweeps; i++ {
		wg.Add(1)
		kind := verifIntRange(verifName("sweepKind", i), 0, 2)
		go func() {
			defer wg.Done()
			switch kind {
			case 0:
				_ = r.unloadIfIdleSince(time.Now().Add(time.Hour).UnixNano()) // idle threshold in the future: everything is idle
			case 1:
				_ = r.unloadIfIdleSince(1) // nothing is idle
			default:
				_ = r.Close()
			}
		}()
	}
	wg.Wait()
	r.readerMx.RLock()
	if r.reader != nil {
		verifAssert(!verifC16Closed[r.reader], "a-header-that-stays-loaded-is-open")
		verifReach("still-loaded")
	} else {
		verifReach("unloaded")
	}
	r.readerMx.RUnlock()
	verifReach("end")
}
