package alert

import (
	"sync"

	"github.com/prometheus/prometheus/model/labels"
	"github.com/prometheus/prometheus/notifier"
)

func verifC46Alert(id string) *notifier.Alert {
	return &notifier.Alert{Labels: labels.FromStrings("id", id)}
}

var verifC46IDs = [12]string{"a0", "a1", "a2", "a3", "a4", "a5", "a6", "a7", "a8", "a9", "a10", "a11"}

// VerifC46Sequential: any history of Push/Pop - FIFO order, capacity bound with oldest dropped first,
// batches at most the batch size, and the wake-up invariant "alerts queued => a wake-up token is pending".
func VerifC46Sequential() {
	capacity := verifIntRange("capacity", 1, verifParam("CAP", 3))
	batch := verifIntRange("batch", 1, verifParam("BATCH", 3))
	q := NewQueue(nil, nil, capacity, batch, labels.FromStrings("ext", "1"), []string{"drop"}, nil)
	var model []string // reference queue content, oldest first
	next := 0
	ops := verifParam("OPS", 4)
	for op := 0; op < ops; op++ {
		if verifIntRange(verifName("op", op), 0, 1) == 0 {
			k := verifIntRange(verifName("push", op), 1, verifParam("PUSH", 4))
			var as []*notifier.Alert
			for i := 0; i < k; i++ {
				as = append(as, verifC46Alert(verifC46IDs[next%12]))
				model = append(model, verifC46IDs[next%12])
				next++
			}
			q.Push(as)
			if len(model) > capacity {
				model = model[len(model)-capacity:]
			}
		} else {
			if len(q.morec) == 0 {
				// Pop would block: only legal when nothing is queued (checked by the invariant below)
				continue
			}
			got := q.Pop(nil)
			verifAssert(len(got) <= batch, "batch-at-most-batch-size")
			want := len(model)
			if want > batch {
				want = batch
			}
			verifAssert(len(got) == want, "pop-returns-oldest-batch")
			if len(got) == want {
				for i := range got {
					verifAssert(got[i].Labels.Get("id") == model[i], "fifo-order")
					verifAssert(got[i].Labels.Get("ext") == "1", "external-label-attached")
				}
				model = model[want:]
			}
			verifReach("popped")
		}
		verifAssert(q.Len() <= capacity, "never-more-than-capacity")
		verifAssert(q.Len() == len(model), "queue-content-size")
		if q.Len() == len(model) {
			for i := range model {
				verifAssert(q.queue[i].Labels.Get("id") == model[i], "queue-content-order")
			}
		}
		// no lost wake-up: alerts queued => token pending
		verifAssert(len(q.queue) == 0 || len(q.morec) == 1, "wakeup-token-pending-while-alerts-queued")
	}
	verifReach("end")
}

// VerifC46Concurrent: pushers and one popper under every explored interleaving: the popper receives every
// alert exactly once (no drops: total pushed <= capacity) and is never left blocked while alerts are queued
// (that would end the path as a deadlock = violation).
func VerifC46Concurrent() {
	batch := verifIntRange("batch", 1, verifParam("BATCH", 2))
	pushers := verifParam("PUSHERS", 2)
	per := verifParam("PER", 2)
	total := pushers * per
	q := NewQueue(nil, nil, total, batch, labels.EmptyLabels(), nil, nil)
	var wg sync.WaitGroup
	for p := 0; p < pushers; p++ {
		wg.Add(1)
		go func(p int) {
			defer wg.Done()
			for i := 0; i < per; i++ {
				q.Push([]*notifier.Alert{verifC46Alert(verifC46IDs[p*per+i])})
			}
		}(p)
	}
	seen := map[string]int{}
	got := 0
	for got < total {
		as := q.Pop(nil)
		verifAssert(len(as) <= batch, "batch-at-most-batch-size")
		for _, a := range as {
			seen[a.Labels.Get("id")]++
			got++
		}
	}
	wg.Wait()
	for i := 0; i < total; i++ {
		verifAssert(seen[verifC46IDs[i]] == 1, "every-alert-delivered-once")
	}
	verifAssert(q.Len() == 0, "queue-drained")
	verifReach("end")
}
