package query

import (
	"context"
	"math"

	"github.com/go-kit/log"
	"github.com/prometheus/prometheus/model/labels"
	"github.com/prometheus/prometheus/storage"
	"github.com/prometheus/prometheus/tsdb/chunkenc"

	"github.com/thanos-io/thanos/pkg/store/labelpb"
	"github.com/thanos-io/thanos/pkg/store/storepb"
)

// the fan-out result as C03 specifies it: label-sorted series, one per label set, all chunks ordered by time
type verifC04Proxy struct {
	storepb.StoreServer
	series      []*storepb.Series
	wantWithout bool
	sawWithout  bool
	batch       bool
}

func (p *verifC04Proxy) Series(r *storepb.SeriesRequest, srv storepb.Store_SeriesServer) error {
	p.sawWithout = len(r.WithoutReplicaLabels) > 0
	if p.batch {
		return srv.Send(storepb.NewBatchResponse(p.series))
	}
	for _, s := range p.series {
		if err := srv.Send(storepb.NewSeriesResponse(s)); err != nil {
			return err
		}
	}
	return nil
}

func verifC04Chunk(ts []int64, vs []float64) storepb.AggrChunk {
	c := chunkenc.NewXORChunk()
	app, _ := c.Appender()
	for i := range ts {
		app.Append(ts[i], vs[i])
	}
	return storepb.AggrChunk{MinTime: ts[0], MaxTime: ts[len(ts)-1], Raw: &storepb.Chunk{Type: storepb.Chunk_XOR, Data: c.Bytes()}}
}

// cut one replica's sample stream into chunks: one chunk, two adjacent chunks, or two chunks that share the
// boundary sample (overlap)
func verifC04Cut(name string, ts []int64, vs []float64) []storepb.AggrChunk {
	n := len(ts)
	if n < 2 {
		return []storepb.AggrChunk{verifC04Chunk(ts, vs)}
	}
	cut := verifIntRange(name+"_cut", 0, n-1) // 0 = single chunk, else first chunk holds cut samples
	if cut == 0 {
		return []storepb.AggrChunk{verifC04Chunk(ts, vs)}
	}
	from := cut
	if verifParam("NOOVERLAP", 0) == 0 && verifIntRange(name+"_overlap", 0, 1) == 1 {
		from = cut - 1
		verifC04Overlap = true
		verifReach("overlapping-chunks")
	}
	return []storepb.AggrChunk{verifC04Chunk(ts[:cut], vs[:cut]), verifC04Chunk(ts[from:], vs[from:])}
}

var verifC04Overlap bool

// the second store's copy: up to three adjacent chunks
func verifC04Cut3(name string, ts []int64, vs []float64) []storepb.AggrChunk {
	n := len(ts)
	c1 := verifIntRange(name+"_cut1", 1, n) // first chunk holds c1 samples
	if c1 == n {
		return []storepb.AggrChunk{verifC04Chunk(ts, vs)}
	}
	c2 := verifIntRange(name+"_cut2", c1+1, n) // second chunk ends before c2
	out := []storepb.AggrChunk{verifC04Chunk(ts[:c1], vs[:c1]), verifC04Chunk(ts[c1:c2], vs[c1:c2])}
	if c2 < n {
		out = append(out, verifC04Chunk(ts[c2:], vs[c2:]))
		verifReach("three-chunks")
	}
	return out
}

func verifC04Insert(all []storepb.AggrChunk, c storepb.AggrChunk) []storepb.AggrChunk {
	at := len(all)
	for at > 0 && !verifC04Before(all[at-1], c) {
		at--
	}
	all = append(all, storepb.AggrChunk{})
	copy(all[at+1:], all[at:])
	all[at] = c
	return all
}

// the chunks of one replica as the fan-out delivers them: its stream cut once, or (TWICE=1, explored) held by two
// stores that cut it differently, merged by time
func verifC04Replica(l, r int, ts []int64, vs []float64) []storepb.AggrChunk {
	out := verifC04Cut(verifName("cut", l, r), ts, vs)
	if verifParam("TWICE", 0) == 1 && verifIntRange(verifName("twoStores", l, r), 0, 1) == 1 {
		for _, c := range verifC04Cut3(verifName("cutB", l, r), ts, vs) {
			out = verifC04Insert(out, c)
		}
		verifReach("replica-on-two-stores")
	}
	return out
}

func verifC04Before(a, b storepb.AggrChunk) bool {
	if a.MinTime != b.MinTime {
		return a.MinTime < b.MinTime
	}
	return a.MaxTime <= b.MaxTime
}

// VerifC04TwoStores: one replica held by two stores with different chunk cuts (up to 4 chunks per series)
func VerifC04TwoStores() { VerifC04Querier() }

// VerifC04Querier (C04): the querier half of the read path. Dedup on: one series per label set, exactly the
// replicated samples whatever the chunk cuts; dedup off: every replica its own series with its own samples.
func VerifC04Querier() {
	verifXORReset()
	verifC04Overlap = false
	nl := verifIntRange("logical", 1, verifParam("LOGICAL", 2))
	nr := verifIntRange("replicas", 1, verifParam("REPLICAS", 2))
	maxN := verifParam("SAMPLES", 3)
	var dedupOn bool
	switch verifParam("DEDUP", -1) {
	case 0:
	case 1:
		dedupOn = true
	default:
		dedupOn = verifIntRange("dedup", 0, 1) == 1
	}
	const lim = int64(1) << 40

	type logical struct {
		lv string
		ts []int64
		vs [][]float64 // per replica (identical when dedup is on)
	}
	var ls []logical
	px := &verifC04Proxy{wantWithout: dedupOn, batch: verifIntRange("batch", 0, 1) == 1}
	for l := 0; l < nl; l++ {
		x := logical{lv: verifStrN(verifName("a", l), 1, "xyz")}
		if l > 0 {
			verifAssume(ls[l-1].lv < x.lv)
		}
		n := verifIntRange(verifName("n", l), 1, maxN)
		last := int64(0)
		for i := 0; i < n; i++ {
			t := verifInt64(verifName("t", l, i))
			verifAssume(t > last)
			verifAssume(t < lim)
			last = t
			x.ts = append(x.ts, t)
		}
		for r := 0; r < nr; r++ {
			var vs []float64
			for i := 0; i < n; i++ {
				if dedupOn && r > 0 {
					vs = append(vs, x.vs[0][i]) // replicas hold identical samples
				} else {
					vs = append(vs, verifFloat(verifName("v", l, r, i)))
				}
			}
			x.vs = append(x.vs, vs)
		}
		ls = append(ls, x)
		if dedupOn {
			// stores strip the replica label; the proxy merges the replicas' chunks of the label set by time
			var all []storepb.AggrChunk
			for r := 0; r < nr; r++ {
				for _, c := range verifC04Replica(l, r, x.ts, x.vs[r]) {
					all = verifC04Insert(all, c)
				}
			}
			px.series = append(px.series, &storepb.Series{Labels: []labelpb.ZLabel{{Name: "a", Value: x.lv}}, Chunks: all})
		} else {
			for r := 0; r < nr; r++ {
				px.series = append(px.series, &storepb.Series{
					Labels: []labelpb.ZLabel{{Name: "a", Value: x.lv}, {Name: "r", Value: [2]string{"0", "1"}[r]}},
					Chunks: verifC04Replica(l, r, x.ts, x.vs[r])})
			}
		}
	}

	q := newQuerier(log.NewNopLogger(), 0, lim, "", []string{"r"}, nil, px, dedupOn, 0, false, false, nil, 0, nil, nil, 0)
	m, _ := labels.NewMatcher(labels.MatchNotEqual, "a", "")
	set, _, err := q.selectFn(context.Background(), &storage.SelectHints{Start: 0, End: lim}, m)
	verifAssert(err == nil, "no-error")
	verifAssert(px.sawWithout == dedupOn, "replica-labels-requested-iff-dedup")

	k := 0
	for set.Next() {
		s := set.At()
		var want logical
		var wv []float64
		if dedupOn {
			verifAssert(k < nl, "one-series-per-label-set")
			want, wv = ls[k], ls[k].vs[0]
			verifAssert(s.Labels().Len() == 1, "replica-label-removed")
		} else {
			verifAssert(k < nl*nr, "one-series-per-replica")
			want, wv = ls[k/nr], ls[k/nr].vs[k%nr]
			verifAssert(s.Labels().Get("r") == [2]string{"0", "1"}[k%nr], "replica-label-kept")
		}
		verifAssert(s.Labels().Get("a") == want.lv, "label-set")
		it := s.Iterator(nil)
		var gt []int64
		var gv []float64
		for it.Next() != chunkenc.ValNone {
			t, v := it.At()
			gt, gv = append(gt, t), append(gv, v)
			verifAssert(len(gt) <= len(want.ts), "no-extra-sample")
			if len(gt) > len(want.ts) {
				break
			}
		}
		verifAssert(it.Err() == nil, "iterator-error")
		// soundness: the output is a strictly increasing selection of the samples the replicas hold
		for i := range gt {
			if i > 0 {
				verifAssert(gt[i-1] < gt[i], "samples-strictly-increasing")
			}
			held := false
			for j := range want.ts {
				held = verifAny(held, verifAll(gt[i] == want.ts[j], math.Float64bits(gv[i]) == math.Float64bits(wv[j])))
			}
			verifAssert(held, "no-invented-sample")
		}
		// completeness. Overlap splitting turns a partially overlapping chunk into a partial "replica"; the penalty
		// algorithm then drops the samples right after the switch (recorded finding)
		verifKnown("C04-penalty-drops-samples-after-partially-overlapping-chunks", dedupOn && verifC04Overlap)
		verifAssert(len(gt) == len(want.ts), "no-missing-sample")
		k++
	}
	verifAssert(set.Err() == nil, "set-error")
	if dedupOn {
		verifAssert(k == nl, "series-count-dedup")
		if nr > 1 {
			verifReach("deduplicated")
		}
	} else {
		verifAssert(k == nl*nr, "series-count-no-dedup")
	}
	_ = math.MaxInt64
	verifReach("end")
}
