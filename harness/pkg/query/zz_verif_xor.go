package query

import (
	"math"

	"github.com/prometheus/prometheus/model/histogram"
	"github.com/prometheus/prometheus/tsdb/chunkenc"
)

// Lossless container instead of the XOR bit encoding (engine only; natively the real XOR code runs):
// the sample stream of every *chunkenc.XORChunk lives in a side table, Bytes() is a 2-byte token naming the
// table entry and chunkenc.FromData maps the token back, so the real EncodeAggrChunk / AggrChunk.Get code
// carries chunks around as bytes exactly as in production.

type verifXORData struct {
	ts []int64
	vs []float64
}

var verifXORTab []*verifXORData
var verifXORIdx = map[*chunkenc.XORChunk]int{}
var verifXORPtr []*chunkenc.XORChunk

func verifXORReset() {
	verifXORTab = nil
	verifXORIdx = map[*chunkenc.XORChunk]int{}
	verifXORPtr = nil
}

func verifXORSide(c *chunkenc.XORChunk) *verifXORData {
	i, ok := verifXORIdx[c]
	if !ok {
		i = len(verifXORTab)
		verifXORIdx[c] = i
		verifXORTab = append(verifXORTab, &verifXORData{})
		verifXORPtr = append(verifXORPtr, c)
	}
	return verifXORTab[i]
}

func verifXORAppender(c *chunkenc.XORChunk) (chunkenc.Appender, error) {
	return &verifXORApp{d: verifXORSide(c)}, nil
}
func verifXORIterator(c *chunkenc.XORChunk, _ chunkenc.Iterator) chunkenc.Iterator {
	d := verifXORSide(c)
	return &verifXORIter{ts: d.ts, vs: d.vs, t: math.MinInt64}
}
func verifXORNumSamples(c *chunkenc.XORChunk) int { return len(verifXORSide(c).ts) }
func verifXORBytes(c *chunkenc.XORChunk) []byte {
	verifXORSide(c)
	return []byte{0xAB, byte(verifXORIdx[c])}
}
func verifFromData(e chunkenc.Encoding, d []byte) (chunkenc.Chunk, error) {
	if e != chunkenc.EncXOR || len(d) != 2 || d[0] != 0xAB || int(d[1]) >= len(verifXORPtr) {
		panic("verifFromData: not a container token")
	}
	return verifXORPtr[d[1]], nil
}

type verifXORApp struct{ d *verifXORData }

func (a *verifXORApp) Append(t int64, v float64) {
	a.d.ts = append(a.d.ts, t)
	a.d.vs = append(a.d.vs, v)
}
func (a *verifXORApp) AppendHistogram(*chunkenc.HistogramAppender, int64, *histogram.Histogram, bool) (chunkenc.Chunk, bool, chunkenc.Appender, error) {
	panic("no histograms")
}
func (a *verifXORApp) AppendFloatHistogram(*chunkenc.FloatHistogramAppender, int64, *histogram.FloatHistogram, bool) (chunkenc.Chunk, bool, chunkenc.Appender, error) {
	panic("no histograms")
}

type verifXORIter struct {
	ts []int64
	vs []float64
	i  int // samples read
	t  int64
	v  float64
}

// same observable behaviour as chunkenc.xorIterator: AtT is math.MinInt64 before the first Next and keeps the
// last sample after exhaustion
func (it *verifXORIter) Next() chunkenc.ValueType {
	if it.i >= len(it.ts) {
		return chunkenc.ValNone
	}
	it.t, it.v = it.ts[it.i], it.vs[it.i]
	it.i++
	return chunkenc.ValFloat
}
func (it *verifXORIter) Seek(t int64) chunkenc.ValueType {
	for t > it.t || it.i == 0 {
		if it.Next() == chunkenc.ValNone {
			return chunkenc.ValNone
		}
	}
	return chunkenc.ValFloat
}
func (it *verifXORIter) At() (int64, float64) { return it.t, it.v }
func (it *verifXORIter) AtHistogram(*histogram.Histogram) (int64, *histogram.Histogram) {
	panic("no histograms")
}
func (it *verifXORIter) AtFloatHistogram(*histogram.FloatHistogram) (int64, *histogram.FloatHistogram) {
	panic("no histograms")
}
func (it *verifXORIter) AtT() int64 { return it.t }
func (it *verifXORIter) Err() error { return nil }
