package store

import (
	"github.com/oklog/ulid/v2"
	"github.com/prometheus/prometheus/model/labels"

	"github.com/thanos-io/thanos/pkg/block/metadata"
)

var verifC15Res = [3]int64{0, 300000, 3600000}

// VerifC15GetFor: C15 — block selection by (range, max resolution) on the real bucketBlockSet.
func VerifC15GetFor() {
	k := verifParam("K", 3)
	s := newBucketBlockSet(labels.EmptyLabels())
	n := verifIntRange("n", 1, k)
	blocks := make([]*bucketBlock, n)
	lim := int64(1) << 40
	for i := 0; i < n; i++ {
		mn := verifInt64(verifName("min", i))
		mx := verifInt64(verifName("max", i))
		verifAssume(mn < mx)
		verifAssume(-lim <= mn)
		verifAssume(mx <= lim)
		r := verifIntRange(verifName("res", i), 0, 2)
		b := &bucketBlock{meta: &metadata.Meta{}}
		b.meta.MinTime = mn
		b.meta.MaxTime = mx
		b.meta.Thanos.Downsample.Resolution = verifC15Res[r]
		err := s.add(b)
		verifAssert(err == nil, "add-ok")
		blocks[i] = b
	}
	mint := verifInt64("mint")
	maxt := verifInt64("maxt")
	verifAssume(mint <= maxt)
	verifAssume(-lim <= mint)
	verifAssume(maxt <= lim)
	maxRes := verifInt64("maxres")
	verifAssume(maxRes >= 0)

	got := s.getFor(mint, maxt, maxRes, nil)

	for i := range got {
		g := got[i]
		verifAssert(g.meta.Thanos.Downsample.Resolution <= maxRes, "resolution-allowed")
		verifAssert(g.meta.MinTime <= maxt, "overlaps-range-hi")
		verifAssert(g.meta.MaxTime > mint, "overlaps-range-lo")
		for j := i + 1; j < len(got); j++ {
			verifAssert(got[i] != got[j], "no-duplicate-block")
		}
	}
	if len(got) > 0 {
		verifReach("some-block-selected")
	}
	if len(got) > 1 {
		verifReach("two-blocks-selected")
	}
	// coverage: any instant of the range covered by an allowed block is covered by a selected block
	t := verifInt64("t")
	verifAssume(mint <= t)
	verifAssume(t <= maxt)
	covered := false
	for _, b := range blocks {
		if b.meta.Thanos.Downsample.Resolution <= maxRes {
			if b.meta.MinTime <= t {
				if t < b.meta.MaxTime {
					covered = true
				}
			}
		}
	}
	if covered {
		sel := false
		for _, g := range got {
			if g.meta.MinTime <= t {
				if t < g.meta.MaxTime {
					sel = true
				}
			}
		}
		verifAssert(sel, "covered-instant-selected")
		verifReach("coverage-checked")
	}
}

// VerifC15AddRemove: the layout is produced by a history of add and remove calls; blocks of one resolution
// (so that the ordering add() establishes and remove() must keep is what getFor relies on).
func VerifC15AddRemove() {
	k := verifParam("K", 4)
	s := newBucketBlockSet(labels.EmptyLabels())
	n := verifIntRange("n", 2, k)
	res := verifC15Res[verifIntRange("res", 0, 2)]
	blocks := make([]*bucketBlock, n)
	lim := int64(1) << 40
	for i := 0; i < n; i++ {
		mn := verifInt64(verifName("min", i))
		mx := verifInt64(verifName("max", i))
		verifAssume(mn < mx)
		verifAssume(-lim <= mn)
		verifAssume(mx <= lim)
		b := &bucketBlock{meta: &metadata.Meta{}}
		b.meta.ULID = ulid.ULID{15: byte(i + 1)}
		b.meta.MinTime = mn
		b.meta.MaxTime = mx
		b.meta.Thanos.Downsample.Resolution = res
		verifAssert(s.add(b) == nil, "add-ok")
		blocks[i] = b
	}
	rm := verifIntRange("remove", 0, n-1)
	s.remove(blocks[rm].meta.ULID)
	mint := verifInt64("mint")
	maxt := verifInt64("maxt")
	verifAssume(mint <= maxt)
	verifAssume(-lim <= mint)
	verifAssume(maxt <= lim)
	got := s.getFor(mint, maxt, res, nil)
	for i := range got {
		verifAssert(got[i] != blocks[rm], "removed-block-not-selected")
		verifAssert(got[i].meta.MinTime <= maxt, "overlaps-range-hi")
		verifAssert(got[i].meta.MaxTime > mint, "overlaps-range-lo")
		for j := i + 1; j < len(got); j++ {
			verifAssert(got[i] != got[j], "no-duplicate-block")
		}
	}
	t := verifInt64("t")
	verifAssume(mint <= t)
	verifAssume(t <= maxt)
	covered := false
	sel := false
	for i, b := range blocks {
		if i != rm {
			covered = verifAny(covered, verifAll(b.meta.MinTime <= t, t < b.meta.MaxTime))
		}
	}
	for _, g := range got {
		sel = verifAny(sel, verifAll(g.meta.MinTime <= t, t < g.meta.MaxTime))
	}
	verifAssert(verifImplies(covered, sel), "covered-instant-selected")
	if len(got) > 1 {
		verifReach("two-blocks-selected")
	}
	verifReach("end")
}
