package store

import (
	"context"
	"sync"

	"github.com/prometheus/client_golang/prometheus"

	"github.com/thanos-io/thanos/pkg/store/labelpb"
	"github.com/thanos-io/thanos/pkg/store/storepb"
)

type verifC09Upstream struct {
	storepb.StoreServer
	responses []*storepb.SeriesResponse
	sent      int
	failedAt  int
}

func (u *verifC09Upstream) Series(_ *storepb.SeriesRequest, srv storepb.Store_SeriesServer) error {
	for i, r := range u.responses {
		if err := srv.Send(r); err != nil {
			u.failedAt = i
			return err
		}
		u.sent++
	}
	return nil
}

type verifC09Sink struct {
	storepb.Store_SeriesServer
	got []*storepb.SeriesResponse
}

func (s *verifC09Sink) Send(r *storepb.SeriesResponse) error { s.got = append(s.got, r); return nil }
func (s *verifC09Sink) Context() context.Context              { return context.Background() }

func verifC09Series(name string) *storepb.Series {
	n := verifIntRange(name+"_chunks", 0, 2)
	s := &storepb.Series{Labels: []labelpb.ZLabel{{Name: "a", Value: name}}}
	for i := 0; i < n; i++ {
		s.Chunks = append(s.Chunks, storepb.AggrChunk{MinTime: int64(i), MaxTime: int64(i)})
	}
	return s
}

// VerifC09Limits: a Series call that succeeds never delivered more series / chunks than the limits; a
// response that would cross a limit is not forwarded and the call fails.
func VerifC09Limits() {
	seriesLimit := verifUint64("seriesLimit")
	samplesLimit := verifUint64("samplesLimit")
	verifAssume(seriesLimit <= 4)
	verifAssume(samplesLimit <= 6*MaxSamplesPerChunk)
	up := &verifC09Upstream{failedAt: -1}
	k := verifIntRange("responses", 1, verifParam("K", 3))
	for i := 0; i < k; i++ {
		switch verifIntRange(verifName("kind", i), 0, 2) {
		case 0:
			up.responses = append(up.responses, storepb.NewSeriesResponse(verifC09Series(verifName("s", i))))
		case 1:
			var b []*storepb.Series
			nb := verifIntRange(verifName("batch", i), 1, 2)
			for j := 0; j < nb; j++ {
				b = append(b, verifC09Series(verifName("b", i, j)))
			}
			up.responses = append(up.responses, storepb.NewBatchResponse(b))
		default:
			up.responses = append(up.responses, storepb.NewWarnSeriesResponse(errVerifWarn))
		}
	}
	sink := &verifC09Sink{}
	srv := NewLimitedStoreServer(up, nil, SeriesSelectLimits{SeriesPerRequest: seriesLimit, SamplesPerRequest: samplesLimit})
	err := srv.Series(&storepb.SeriesRequest{}, sink)
	var series, chunks uint64
	for _, r := range sink.got {
		if s := r.GetSeries(); s != nil {
			series++
			chunks += uint64(len(s.Chunks))
		}
		if b := r.GetBatch(); b != nil {
			for _, s := range b.Series {
				series++
				chunks += uint64(len(s.Chunks))
			}
		}
	}
	if seriesLimit > 0 {
		verifAssert(series <= seriesLimit, "series-limit-never-exceeded")
	}
	if samplesLimit > 0 {
		verifAssert(chunks*MaxSamplesPerChunk <= samplesLimit, "chunk-limit-never-exceeded")
	}
	if err == nil {
		verifAssert(len(sink.got) == k, "success-delivers-everything")
		verifReach("success")
	} else {
		verifAssert(len(sink.got) == up.failedAt, "rejected-response-not-forwarded")
		verifReach("limit-hit")
	}
	verifReach("end")
}

var errVerifWarn = verifErr("warn")

type verifErr string

func (e verifErr) Error() string { return string(e) }

// VerifC09Concurrent: the per-request limiter is shared by the goroutines of one request (one per block):
// whatever the interleaving, the reservations that were granted never add up to more than the limit.
func VerifC09Concurrent() {
	limit := verifUint64("limit")
	verifAssume(limit >= 1)
	verifAssume(limit <= 4)
	l := NewLimiter(limit, prometheus.NewCounter(prometheus.CounterOpts{Name: "verif_failed"}))
	g := verifParam("G", 2)
	granted := make([]uint64, g)
	var wg sync.WaitGroup
	gate := make(chan struct{}) // all reservations start together (matters for the native replay only)
	for i := 0; i < g; i++ {
		n := verifUint64(verifName("n", i))
		verifAssume(n >= 1)
		verifAssume(n <= 3)
		wg.Add(1)
		go func(i int, n uint64) {
			defer wg.Done()
			<-gate
			if l.Reserve(n) == nil {
				granted[i] = n
			}
		}(i, n)
	}
	close(gate)
	wg.Wait()
	var total uint64
	for _, x := range granted {
		total += x
	}
	verifAssert(total <= limit, "granted-reservations-within-limit")
	if total > 0 && total < limit {
		verifReach("granted-below-limit")
	}
	verifReach("end")
}
