package store

import (
	"context"

	"github.com/prometheus/prometheus/model/labels"

	"github.com/thanos-io/thanos/pkg/info/infopb"
	storecache "github.com/thanos-io/thanos/pkg/store/cache"
	"github.com/thanos-io/thanos/pkg/store/storepb"
)

type verifC05Store struct {
	storepb.StoreClient
	lsets      []labels.Labels
	mint, maxt int64
}

func (s *verifC05Store) LabelSets() []labels.Labels         { return s.lsets }
func (s *verifC05Store) TimeRange() (int64, int64)          { return s.mint, s.maxt }
func (s *verifC05Store) TSDBInfos() []infopb.TSDBInfo       { return nil }
func (s *verifC05Store) SupportsSharding() bool             { return true }
func (s *verifC05Store) SupportsWithoutReplicaLabels() bool { return true }
func (s *verifC05Store) String() string                     { return "verif" }
func (s *verifC05Store) Addr() (string, bool)               { return "verif:1", false }
func (s *verifC05Store) Matches([]*labels.Matcher) bool     { return true }

var verifC05Names = [3]string{"a", "b", "c"}

// VerifC05Pruning: if a store holds a series that satisfies every selector and has a sample inside the query
// range, the store is not pruned - neither by the proxy (time range, external labels) nor by the store's own
// external-label check.
func VerifC05Pruning() {
	lim := int64(1) << 40
	// external label sets of the store
	nsets := verifIntRange("labelSets", 0, verifParam("SETS", 2))
	var lsets []labels.Labels
	var extV [4][3]string
	var extH [4][3]bool
	for k := 0; k < nsets; k++ {
		var ls []labels.Label
		only := -1
		if k > 0 && verifParam("FULL", 0) == 0 {
			only = verifIntRange(verifName("extOnly", k), 0, 2) // further sets: one of a, b or empty
		}
		for i := 0; i < 2; i++ { // external labels use names a, b
			present := false
			if only >= 0 {
				present = only == i
			} else {
				present = verifIntRange(verifName("extHas", k, i), 0, 1) == 1
			}
			if present {
				v := verifStrN(verifName("extVal", k, i), 1, "xy")
				ls = append(ls, labels.Label{Name: verifC05Names[i], Value: v})
				extV[k][i], extH[k][i] = v, true
			}
		}
		lsets = append(lsets, labels.New(ls...))
	}
	smin := verifInt64("storeMin")
	smax := verifInt64("storeMax")
	verifAssume(-lim <= smin)
	verifAssume(smin <= smax)
	verifAssume(smax <= lim)
	st := &verifC05Store{lsets: lsets, mint: smin, maxt: smax}
	// witness series: own labels a, b, c (each optional) overridden by ONE of the external sets; one sample at t
	which := 0
	if nsets > 1 {
		which = verifIntRange("seriesOfSet", 0, nsets-1)
	}
	ext0, has0 := extV[which], extH[which]
	var ser [3]string
	for i := 0; i < 3; i++ {
		if (i < 2 || verifParam("FULL", 0) == 1) && verifIntRange(verifName("ownHas", i), 0, 1) == 1 {
			ser[i] = verifStrN(verifName("ownVal", i), 1, "xy")
		}
		if i < 2 && has0[i] {
			ser[i] = ext0[i]
		}
	}
	t := verifInt64("sampleTime")
	verifAssume(smin <= t) // the store advertises a time range that covers its data
	verifAssume(t <= smax)
	mint := verifInt64("queryMin")
	maxt := verifInt64("queryMax")
	verifAssume(-lim <= mint)
	verifAssume(mint <= maxt)
	verifAssume(maxt <= lim)
	nm := verifIntRange("matchers", 0, verifParam("M", 2))
	var ms []*labels.Matcher
	var pms []storepb.LabelMatcher
	sat := verifAll(mint <= t, t <= maxt)
	for j := 0; j < nm; j++ {
		name := verifIntRange(verifName("mName", j), 0, 1+verifParam("FULL", 0))
		neq := verifIntRange(verifName("mNeq", j), 0, 1) == 1
		val := verifStr(verifName("mVal", j), 1, "xy")
		mt, pt := labels.MatchEqual, storepb.LabelMatcher_EQ
		if neq {
			mt, pt = labels.MatchNotEqual, storepb.LabelMatcher_NEQ
		}
		ms = append(ms, &labels.Matcher{Type: mt, Name: verifC05Names[name], Value: val})
		pms = append(pms, storepb.LabelMatcher{Type: pt, Name: verifC05Names[name], Value: val})
		ok := ser[name] == val // a missing label is the empty string
		if neq {
			ok = !ok
		}
		sat = verifAll(sat, ok)
	}
	ok, _ := storeMatches(context.Background(), false, st, mint, maxt, ms...)
	if nsets > 0 {
		verifAssert(verifImplies(sat, ok), "store-with-matching-series-not-pruned-by-proxy")
		// the store's own check against the external labels of the TSDB holding the series
		m2, _, err := matchesExternalLabels(pms, lsets[which], storecache.NoopMatchersCache)
		verifAssert(err == nil, "no-error")
		verifAssert(verifImplies(sat, m2), "store-with-matching-series-not-pruned-by-store")
		verifReach("with-label-sets")
	} else {
		verifAssert(verifImplies(sat, ok), "store-without-label-sets-not-pruned")
	}
	verifReach("end")
}
