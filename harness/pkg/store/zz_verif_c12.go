package store

import (
	"github.com/prometheus/prometheus/storage"
	"github.com/prometheus/prometheus/tsdb/index"
)

func verifC12Refs(n int) []storage.SeriesRef {
	refs := make([]storage.SeriesRef, n)
	for i := range refs {
		v := verifUint64(verifName("ref", i))
		if i > 0 {
			verifAssume(uint64(refs[i-1]) < v)
		}
		refs[i] = storage.SeriesRef(v)
	}
	return refs
}

func verifC12Check(p index.Postings, refs []storage.SeriesRef, id string) {
	i := 0
	for p.Next() {
		verifAssert(i < len(refs), id+"-no-extra-entry")
		if i >= len(refs) {
			return
		}
		verifAssert(p.At() == refs[i], id+"-entry-equals-original")
		i++
	}
	verifAssert(p.Err() == nil, id+"-no-error")
	verifAssert(i == len(refs), id+"-all-entries-decoded")
}

func verifC12Seek(p index.Postings, refs []storage.SeriesRef, x storage.SeriesRef, id string) {
	// reference: the same operations on the original list (prometheus' ListPostings)
	ref := index.NewListPostings(refs)
	okRef := ref.Seek(x)
	ok := p.Seek(x)
	verifAssert(ok == okRef, id+"-seek-result-as-on-the-original-list")
	if !ok || !okRef {
		return
	}
	verifAssert(p.At() == ref.At(), id+"-seek-position-as-on-the-original-list")
	for n := 0; n <= len(refs); n++ {
		a, b := p.Next(), ref.Next()
		verifAssert(a == b, id+"-iteration-after-seek-as-on-the-original-list")
		if !a || !b {
			return
		}
		verifAssert(p.At() == ref.At(), id+"-entries-after-seek-as-on-the-original-list")
	}
}

// VerifC12DiffVarint: the diff+varint layer of both cache codecs round-trips, and seeking behaves as on the list.
func VerifC12DiffVarint() {
	n := verifIntRange("entries", 0, verifParam("N", 3))
	refs := verifC12Refs(n)
	enc, err := diffVarintEncodeNoHeader(index.NewListPostings(refs), n)
	verifAssert(err == nil, "encode-ok")
	if err != nil {
		return
	}
	verifC12Check(newDiffVarintPostings(enc, nil), refs, "plain")
	x := storage.SeriesRef(verifUint64("seekTarget"))
	verifC12Seek(newDiffVarintPostings(enc, nil), refs, x, "plain")
	verifReach("end")
}

func verifC12Chunk(data []byte) []byte {
	sum := crc(data)
	l := len(data) + checksumSize
	out := []byte{chunkTypeUncompressedData, byte(l), byte(l >> 8), byte(l >> 16), byte(sum), byte(sum >> 8), byte(sum >> 16), byte(sum >> 24)}
	return append(out, data...)
}

// VerifC12Streamed: the streamed decoder over a snappy *framing* stream of uncompressed chunks whose
// boundaries fall anywhere (also inside a varint). (The encoder never emits padding chunks, so none are fed.)
func VerifC12Streamed() {
	n := verifIntRange("entries", 1, verifParam("N", 3))
	refs := verifC12Refs(n)
	// differences below 2^BITS keep the varints (and so the number of cut positions) small
	verifAssume(uint64(refs[n-1]) < uint64(1)<<uint(verifParam("BITS", 14)))
	enc, err := diffVarintEncodeNoHeader(index.NewListPostings(refs), n)
	verifAssert(err == nil, "encode-ok")
	if err != nil {
		return
	}
	stream := []byte{chunkTypeStreamIdentifier, 6, 0, 0, 's', 'N', 'a', 'P', 'p', 'Y'}
	// cut the payload into up to 3 chunks
	c1 := verifIntRange("cut1", 0, len(enc))
	c2 := verifIntRange("cut2", c1, len(enc))
	parts := [][]byte{enc[:c1], enc[c1:c2], enc[c2:]}
	for i, p := range parts {
		if len(p) == 0 && i != 2 {
			continue
		}
		stream = append(stream, verifC12Chunk(p)...)
	}
	p, err := newStreamedDiffVarintPostings(stream, true)
	verifAssert(err == nil, "stream-accepted")
	if err != nil {
		return
	}
	verifC12Check(p, refs, "streamed")
	p2, _ := newStreamedDiffVarintPostings(stream, true)
	x := storage.SeriesRef(verifUint64("seekTarget"))
	verifC12Seek(p2, refs, x, "streamed")
	if c1 > 0 && c1 < len(enc) {
		verifReach("split")
	}
	verifReach("end")
}
