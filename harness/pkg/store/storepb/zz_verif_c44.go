package storepb

import (
	"sync"

	"github.com/thanos-io/thanos/pkg/store/labelpb"
)

var verifC44Names = [3]string{"a", "b", "c"}

func verifC44Series(p string, share *[3]string, shareMask [3]bool) []labelpb.ZLabel {
	var ls []labelpb.ZLabel
	for i := 0; i < 3; i++ {
		if shareMask[i] && share != nil {
			if share[i] != "" {
				ls = append(ls, labelpb.ZLabel{Name: verifC44Names[i], Value: share[i]})
			}
			continue
		}
		if verifIntRange(verifName(p+"has", i), 0, 1) == 1 {
			v := verifHashKey(verifName(p+"val", i), 1, "xyz")
			ls = append(ls, labelpb.ZLabel{Name: verifC44Names[i], Value: v})
			if share != nil {
				share[i] = v
			}
		}
	}
	return ls
}

// VerifC44Partition: every series belongs to exactly one shard; series that agree on the sharding labels
// (by) / differ only in the sharding labels (without) belong to the same shard.
func VerifC44Partition() {
	total := int64(verifIntRange("totalShards", 1, verifParam("T", 4)))
	by := verifIntRange("by", 0, 1) == 1
	var shardLabels []string
	var isShard [3]bool
	for i := 0; i < 2; i++ {
		if verifIntRange(verifName("shardLabel", i), 0, 1) == 1 {
			shardLabels = append(shardLabels, verifC44Names[i])
			isShard[i] = true
		}
	}
	pool := &sync.Pool{New: func() any { b := make([]byte, 0, 64); return &b }}
	// labels that decide the shard: by -> the sharding labels; without -> all the others
	var decides [3]bool
	for i := 0; i < 3; i++ {
		decides[i] = isShard[i] == by
	}
	var vals [3]string
	s1 := verifC44Series("s1_", &vals, [3]bool{})
	// second series: same values (and presence) on the deciding labels, free elsewhere
	for i := 0; i < 3; i++ {
		if !decides[i] {
			vals[i] = ""
		}
	}
	s2 := verifC44Series("s2_", &vals, decides)
	matches1, matches2 := 0, 0
	same := true
	for idx := int64(0); idx < total; idx++ {
		info := &ShardInfo{ShardIndex: idx, TotalShards: total, By: by, Labels: shardLabels}
		m := info.Matcher(pool)
		a := m.MatchesZLabels(s1)
		b := m.MatchesZLabels(s2)
		m.Close()
		matches1 += verifB2I(a)
		matches2 += verifB2I(b)
		same = verifAll(same, a == b)
	}
	verifAssert(matches1 == 1, "series-in-exactly-one-shard")
	verifAssert(matches2 == 1, "series-in-exactly-one-shard")
	verifAssert(same, "series-agreeing-on-deciding-labels-share-a-shard")
	verifReach("end")
}
