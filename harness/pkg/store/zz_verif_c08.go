package store

import (
	"context"
	"hash"
	"math"

	"github.com/go-kit/log"
	"github.com/prometheus/prometheus/model/labels"
	"github.com/prometheus/prometheus/storage"
	"github.com/prometheus/prometheus/tsdb/chunkenc"
	"github.com/prometheus/prometheus/tsdb/chunks"
	"github.com/prometheus/prometheus/util/annotations"

	"github.com/thanos-io/thanos/pkg/component"
	"github.com/thanos-io/thanos/pkg/store/storepb"
)

// chunk content hashes are not the subject here: a cheap concrete function of the bytes
func verifC08Hash(_ hash.Hash64, b []byte, _ bool) uint64 {
	h := uint64(len(b))
	for _, x := range b {
		h = h*31 + uint64(x)
	}
	return h
}

// ---- a reference TSDB: stored series with label sets and chunks; Select filters with the real matchers ----

type verifC08Series struct {
	lset labels.Labels
	chks []chunks.Meta
}

func (s *verifC08Series) Labels() labels.Labels { return s.lset }
func (s *verifC08Series) Iterator(chunks.Iterator) chunks.Iterator {
	return &verifC08ChunkIter{chks: s.chks, i: -1}
}
func (s *verifC08Series) ChunkCount() (int, error) { return len(s.chks), nil }

type verifC08ChunkIter struct {
	chks []chunks.Meta
	i    int
}

func (it *verifC08ChunkIter) At() chunks.Meta { return it.chks[it.i] }
func (it *verifC08ChunkIter) Next() bool      { it.i++; return it.i < len(it.chks) }
func (it *verifC08ChunkIter) Err() error      { return nil }

type verifC08Set struct {
	ss []*verifC08Series
	i  int
}

func (s *verifC08Set) Next() bool                        { s.i++; return s.i < len(s.ss) }
func (s *verifC08Set) At() storage.ChunkSeries           { return s.ss[s.i] }
func (s *verifC08Set) Err() error                        { return nil }
func (s *verifC08Set) Warnings() annotations.Annotations { return nil }

type verifC08DB struct {
	series []*verifC08Series
}

func (d *verifC08DB) StartTime() (int64, error) { return 0, nil }
func (d *verifC08DB) ChunkQuerier(mint, maxt int64) (storage.ChunkQuerier, error) {
	return &verifC08Querier{d}, nil
}

type verifC08Querier struct{ d *verifC08DB }

func (q *verifC08Querier) Close() error { return nil }
func (q *verifC08Querier) selected(ms []*labels.Matcher) []*verifC08Series {
	var out []*verifC08Series
	for _, s := range q.d.series {
		ok := true
		for _, m := range ms {
			if !m.Matches(s.lset.Get(m.Name)) {
				ok = false
			}
		}
		if ok {
			out = append(out, s)
		}
	}
	return out
}
func (q *verifC08Querier) Select(_ context.Context, _ bool, _ *storage.SelectHints, ms ...*labels.Matcher) storage.ChunkSeriesSet {
	return &verifC08Set{ss: q.selected(ms), i: -1}
}
func (q *verifC08Querier) LabelNames(_ context.Context, _ *storage.LabelHints, ms ...*labels.Matcher) ([]string, annotations.Annotations, error) {
	var out []string
	for _, s := range q.selected(ms) {
		s.lset.Range(func(l labels.Label) {
			for _, o := range out {
				if o == l.Name {
					return
				}
			}
			out = append(out, l.Name)
		})
	}
	// names are concrete in the harness: plain insertion sort
	for i := 1; i < len(out); i++ {
		for j := i; j > 0 && out[j-1] > out[j]; j-- {
			out[j-1], out[j] = out[j], out[j-1]
		}
	}
	return out, nil, nil
}
func (q *verifC08Querier) LabelValues(_ context.Context, name string, _ *storage.LabelHints, ms ...*labels.Matcher) ([]string, annotations.Annotations, error) {
	var out []string
	for _, s := range q.selected(ms) {
		if v := s.lset.Get(name); v != "" {
			out = append(out, v) // duplicates / order as a real TSDB would not produce are resolved by the caller's contract: assume distinct below
		}
	}
	return out, nil, nil
}

var verifC08Names = [3]string{"a", "b", "r"}

type verifC08Case struct {
	st      *TSDBStore
	db      *verifC08DB
	ext     labels.Labels
	without []string
	ms      []storepb.LabelMatcher
}

func verifC08Setup() *verifC08Case {
	c := &verifC08Case{db: &verifC08DB{}}
	// external labels: any subset of {a, r}
	var ext []labels.Label
	if verifIntRange("extA", 0, 1) == 1 {
		ext = append(ext, labels.Label{Name: "a", Value: verifStrN("extAval", 1, "xyz")})
	}
	if verifIntRange("extR", 0, 1) == 1 {
		ext = append(ext, labels.Label{Name: "r", Value: verifStrN("extRval", 1, "xyz")})
	}
	c.ext = labels.New(ext...)
	// stored series: every series has b; a and r optional (collide with external labels)
	ns := verifIntRange("series", 1, verifParam("SERIES", 2))
	for s := 0; s < ns; s++ {
		var ls []labels.Label
		if verifIntRange(verifName("hasA", s), 0, 1) == 1 {
			ls = append(ls, labels.Label{Name: "a", Value: verifStrN(verifName("a", s), 1, "xyz")})
		}
		ls = append(ls, labels.Label{Name: "b", Value: verifStrN(verifName("b", s), 1, "xyz")})
		if verifIntRange(verifName("hasR", s), 0, 1) == 1 {
			ls = append(ls, labels.Label{Name: "r", Value: verifStrN(verifName("r", s), 1, "xyz")})
		}
		ser := &verifC08Series{lset: labels.New(ls...)}
		nch := verifIntRange(verifName("chunks", s), 1, verifParam("CHUNKS", 2))
		for k := 0; k < nch; k++ {
			ch, _ := chunkenc.FromData(chunkenc.EncXOR, []byte{0, 1, byte(s), byte(k)})
			ser.chks = append(ser.chks, chunks.Meta{MinTime: int64(10 * k), MaxTime: int64(10*k + 9), Chunk: ch})
		}
		if s > 0 {
			verifAssume(labels.Compare(c.db.series[s-1].lset, ser.lset) < 0) // a TSDB returns sorted, distinct series
		}
		c.db.series = append(c.db.series, ser)
	}
	// replica labels to drop
	if verifIntRange("withoutR", 0, 1) == 1 {
		c.without = append(c.without, "r")
	}
	if verifIntRange("withoutA", 0, 1) == 1 {
		c.without = append(c.without, "a")
	}
	// selectors: b != "" (always there), plus one explored matcher on a, b or r
	c.ms = []storepb.LabelMatcher{{Type: storepb.LabelMatcher_NEQ, Name: "b", Value: ""}}
	if verifIntRange("extraMatcher", 0, 1) == 1 {
		m := storepb.LabelMatcher{Name: verifC08Names[verifIntRange("matcherName", 0, 2)], Value: verifStrN("matcherVal", 1, "xyz")}
		if verifIntRange("matcherNeg", 0, 1) == 1 {
			m.Type = storepb.LabelMatcher_NEQ
		}
		c.ms = append(c.ms, m)
	}
	// the store is built through its constructor; external labels either given at construction or installed
	// later with SetExtLset (as the receiver does on a hashring / label change)
	if verifIntRange("extSetLater", 0, 1) == 1 {
		c.st = NewTSDBStore(log.NewNopLogger(), c.db, component.Receive, labels.FromStrings("z", "old"))
		c.st.SetExtLset(c.ext)
		verifReach("ext-labels-replaced")
	} else {
		c.st = NewTSDBStore(log.NewNopLogger(), c.db, component.Receive, c.ext)
	}
	if verifIntRange("smallFrames", 0, 1) == 1 {
		c.st.maxBytesPerFrame = 1 // every chunk in its own frame
	}
	return c
}

func (c *verifC08Case) dropped(name string) bool {
	for _, w := range c.without {
		if w == name {
			return true
		}
	}
	return false
}

// contradiction: some selector on an external label name does not match the external value
func (c *verifC08Case) contradicts() bool {
	bad := false
	for _, m := range c.ms {
		ev := c.ext.Get(m.Name)
		if ev == "" {
			continue
		}
		if m.Type == storepb.LabelMatcher_EQ {
			bad = verifAny(bad, m.Value != ev)
		} else {
			bad = verifAny(bad, m.Value == ev)
		}
	}
	return bad
}

// VerifC08TSDB (C08): TSDBStore.Series presents the external labels on every series (overriding stored ones),
// minus replica labels; contradicting selectors return nothing; frames of one series carry the same labels.
func VerifC08TSDB() {
	c := verifC08Setup()
	sink := &verifC03Sink{}
	err := c.st.Series(&storepb.SeriesRequest{MinTime: math.MinInt64, MaxTime: math.MaxInt64, Matchers: c.ms, WithoutReplicaLabels: c.without}, sink)
	if err != nil {
		verifReach("error") // only "no matchers specified" is possible here
		return
	}
	var out []*storepb.Series
	for _, r := range sink.got {
		if s := r.GetSeries(); s != nil {
			out = append(out, s)
		}
	}
	if c.contradicts() {
		verifAssert(len(out) == 0, "contradicting-selectors-return-nothing")
		verifReach("contradiction")
		return
	}
	// chunks of every stored series arrive exactly once and in order, however the series is split over frames
	// (the test chunks carry their stored series and position in their bytes)
	var nextChunk [4]int
	for _, s := range out {
		for ci, ch := range s.Chunks {
			si, k := int(ch.Raw.Data[2]), int(ch.Raw.Data[3])
			verifAssert(k == nextChunk[si], "chunks-of-a-series-in-order-across-frames")
			verifAssert(ch.MinTime == int64(10*k), "chunk-time-range-kept")
			nextChunk[si] = k + 1
			if ci == 0 && k > 0 {
				verifReach("series-split-over-frames")
			}
		}
	}
	for _, s := range out {
		seenB := false
		for i, l := range s.Labels {
			if i > 0 {
				verifAssert(s.Labels[i-1].Name < l.Name, "labels-sorted-unique")
			}
			verifAssert(!c.dropped(l.Name), "replica-label-dropped")
			if ev := c.ext.Get(l.Name); ev != "" {
				verifAssert(l.Value == ev, "external-label-overrides-stored")
			}
			if l.Name == "b" {
				seenB = true
			}
		}
		verifAssert(seenB, "stored-labels-kept")
		c.ext.Range(func(e labels.Label) {
			if c.dropped(e.Name) {
				return
			}
			found := false
			for _, l := range s.Labels {
				if l.Name == e.Name {
					found = true
				}
			}
			verifAssert(found, "external-label-present")
		})
		if len(s.Labels) == 3 {
			verifReach("three-labels")
		}
	}
	if len(out) > 0 {
		verifReach("series")
	}
	verifReach("end")
}

// VerifC07TSDB (C07): every label name / value on a series returned by Series is returned by LabelNames / LabelValues
func VerifC07TSDB() {
	c := verifC08Setup()
	sink := &verifC03Sink{}
	err := c.st.Series(&storepb.SeriesRequest{MinTime: math.MinInt64, MaxTime: math.MaxInt64, Matchers: c.ms, WithoutReplicaLabels: c.without, SkipChunks: true}, sink)
	if err != nil {
		return
	}
	names, err := c.st.LabelNames(context.Background(), &storepb.LabelNamesRequest{Start: math.MinInt64, End: math.MaxInt64, Matchers: c.ms, WithoutReplicaLabels: c.without})
	verifAssert(err == nil, "label-names-no-error")
	for _, r := range sink.got {
		s := r.GetSeries()
		if s == nil {
			continue
		}
		for _, l := range s.Labels {
			found := false
			for _, n := range names.Names {
				if n == l.Name {
					found = true
				}
			}
			verifAssert(found, "label-name-of-series-listed")
			vals, err := c.st.LabelValues(context.Background(), &storepb.LabelValuesRequest{Label: l.Name, Start: math.MinInt64, End: math.MaxInt64, Matchers: c.ms, WithoutReplicaLabels: c.without})
			verifAssert(err == nil, "label-values-no-error")
			fv := false
			for _, v := range vals.Values {
				fv = verifAny(fv, v == l.Value)
			}
			verifAssert(fv, "label-value-of-series-listed")
		}
		verifReach("series")
	}
	verifReach("end")
}

// VerifC08Frames: one stored series with several chunks, split over frames by the byte limit
func VerifC08Frames() { VerifC08TSDB() }
