package store

import (
	"context"
	"errors"
	"io"
	"math"

	"github.com/go-kit/log"
	"github.com/opentracing/opentracing-go"
	"github.com/prometheus/client_golang/prometheus"
	"github.com/prometheus/prometheus/model/labels"
	"google.golang.org/grpc"

	"github.com/thanos-io/thanos/pkg/info/infopb"
	storecache "github.com/thanos-io/thanos/pkg/store/cache"
	"github.com/thanos-io/thanos/pkg/store/labelpb"
	"github.com/thanos-io/thanos/pkg/store/storepb"
)

// context plumbing that only attaches metadata: the context is passed through unchanged
func verifCtxAppendKV(ctx context.Context, kv ...string) context.Context { return ctx }
func verifCtxAddTags(ctx context.Context, tags opentracing.Tags) context.Context {
	return ctx
}

// the encoded size of a response only feeds a tracing tag (bytesProcessed)
func verifRespSize(r *storepb.SeriesResponse) int { return 1 }

type verifC03Frame struct {
	resp *storepb.SeriesResponse
}

// a stream error that wraps io.EOF is still a failure of the stream
type verifC03WrappedEOF struct{}

func (verifC03WrappedEOF) Error() string { return "transport is closing: EOF" }
func (verifC03WrappedEOF) Unwrap() error { return io.EOF }

type verifC03Store struct {
	storepb.StoreClient
	failErr  error
	name     string
	frames   []*storepb.SeriesResponse
	openErr  bool
	failAt   int // Recv fails after failAt frames; -1 = never
	withoutR bool
}

func (s *verifC03Store) LabelSets() []labels.Labels         { return nil }
func (s *verifC03Store) TimeRange() (int64, int64)          { return math.MinInt64, math.MaxInt64 }
func (s *verifC03Store) TSDBInfos() []infopb.TSDBInfo       { return nil }
func (s *verifC03Store) SupportsSharding() bool             { return true }
func (s *verifC03Store) SupportsWithoutReplicaLabels() bool { return s.withoutR }
func (s *verifC03Store) String() string                     { return s.name }
func (s *verifC03Store) Addr() (string, bool)               { return s.name, false }
func (s *verifC03Store) Matches([]*labels.Matcher) bool     { return true }
func (s *verifC03Store) Series(ctx context.Context, _ *storepb.SeriesRequest, _ ...grpc.CallOption) (storepb.Store_SeriesClient, error) {
	if s.openErr {
		return nil, errors.New("store unreachable")
	}
	return &verifC03Stream{s: s}, nil
}

type verifC03Stream struct {
	storepb.Store_SeriesClient
	s *verifC03Store
	i int
}

func (c *verifC03Stream) Recv() (*storepb.SeriesResponse, error) {
	if c.s.failAt >= 0 && c.i >= c.s.failAt {
		if c.s.failErr != nil {
			return nil, c.s.failErr
		}
		return nil, errors.New("stream broken")
	}
	if c.i >= len(c.s.frames) {
		return nil, io.EOF
	}
	r := c.s.frames[c.i]
	c.i++
	return r, nil
}
func (c *verifC03Stream) CloseSend() error         { return nil }
func (c *verifC03Stream) Context() context.Context { return context.Background() }

type verifC03Sink struct {
	storepb.Store_SeriesServer
	got []*storepb.SeriesResponse
}

func (s *verifC03Sink) Send(r *storepb.SeriesResponse) error { s.got = append(s.got, r); return nil }
func (s *verifC03Sink) Context() context.Context              { return context.Background() }

type verifC03Chunk struct {
	lbl        string
	hash       uint64
	mint, maxt int64
}

func verifC03Proxy(stores []Client) *ProxyStore {
	return &ProxyStore{
		logger:            log.NewNopLogger(),
		stores:            func() []Client { return stores },
		selectorLabels:    labels.EmptyLabels(),
		metrics:           &proxyStoreMetrics{emptyStreamResponses: prometheus.NewCounter(prometheus.CounterOpts{Name: "e"})},
		retrievalStrategy: EagerRetrieval,
		tsdbSelector:      DefaultSelector,
		matcherCache:      storecache.NoopMatchersCache,
		enableDedup:       true,
	}
}

// VerifC03Proxy (C03, C06): fan-out over stores that stream label-sorted series (possibly in several frames,
// possibly duplicated across stores, possibly failing): sorted output, each label set once, exactly the
// distinct chunks in time order; abort / warn strategy honoured.
func VerifC03Proxy() {
	verifC03Run(verifParam("STORES", 2), verifParam("SERIES", 2), verifParam("CHUNKS", 1), verifParam("BATCH", 2), false)
}

// VerifC03ProxyChunks: one label set everywhere, up to CHUNKS chunks per store (chunk merge / dedup by hash)
func VerifC03ProxyChunks() {
	verifC03Run(verifParam("STORES", 2), 1, verifParam("CHUNKS", 2), verifParam("BATCH", 1), false)
}

// VerifC03ProxyLazy: lazy retrieval (per-store receiver goroutines, ring buffer + sync.Cond), interleavings explored
func VerifC03ProxyLazy() {
	verifC03Run(verifParam("STORES", 2), verifParam("SERIES", 2), verifParam("CHUNKS", 1), verifParam("BATCH", 0), false)
}

// VerifC06ProxyLazy: failures under lazy retrieval
func VerifC06ProxyLazy() {
	verifC03Run(verifParam("STORES", 2), verifParam("SERIES", 1), verifParam("CHUNKS", 1), verifParam("BATCH", 0), true)
}

// VerifC06Proxy (C06): stores may fail at open or in mid stream
func VerifC06Proxy() {
	verifC03Run(verifParam("STORES", 2), verifParam("SERIES", 1), verifParam("CHUNKS", 1), verifParam("BATCH", 1), true)
}

func verifC03Run(nst, maxSeries, maxChunks, maxBatch int, failures bool) {
	var stores []Client
	var sent []verifC03Chunk     // every chunk any store delivers before it fails
	var healthy []verifC03Chunk  // chunks of stores that do not fail at all
	failed := 0
	lim := int64(1) << 40
	for k := 0; k < nst; k++ {
		st := &verifC03Store{name: verifRingName(k), failAt: -1, withoutR: true}
		ns := verifIntRange(verifName("series", k), 0, maxSeries)
		prev := ""
		for s := 0; s < ns; s++ {
			lv := verifStrN(verifName("label", k, s), 1, "xyz")
			if s > 0 {
				verifAssume(prev < lv) // a store streams label-sorted series
			}
			prev = lv
			nch := verifIntRange(verifName("chunks", k, s), 1, maxChunks)
			var chks []storepb.AggrChunk
			var last int64 = -lim - 1
			for c := 0; c < nch; c++ {
				mn := verifInt64(verifName("mint", k, s, c))
				mx := verifInt64(verifName("maxt", k, s, c))
				verifAssume(mn > last) // chunks of a series are time ordered and do not overlap within a store
				verifAssume(mn <= mx)
				verifAssume(mx <= lim)
				last = mx
				h := verifUint64(verifName("hash", k, s, c))
				verifAssume(h != 0)
				chks = append(chks, storepb.AggrChunk{MinTime: mn, MaxTime: mx, Raw: &storepb.Chunk{Hash: h, Data: []byte{byte(k), byte(s), byte(c)}}})
			}
			lbls := []labelpb.ZLabel{{Name: "a", Value: lv}}
			// one frame, or the series split over two frames
			if nch == 2 && verifIntRange(verifName("split", k, s), 0, 1) == 1 {
				st.frames = append(st.frames, storepb.NewSeriesResponse(&storepb.Series{Labels: lbls, Chunks: chks[:1]}))
				st.frames = append(st.frames, storepb.NewSeriesResponse(&storepb.Series{Labels: lbls, Chunks: chks[1:]}))
			} else {
				st.frames = append(st.frames, storepb.NewSeriesResponse(&storepb.Series{Labels: lbls, Chunks: chks}))
			}
		}
		fails := false
		if failures {
			switch verifIntRange(verifName("failure", k), 0, 2) {
			case 1:
				st.openErr = true
				fails = true
			case 2:
				st.failAt = verifIntRange(verifName("failAfter", k), 0, len(st.frames))
				fails = true
				if verifIntRange(verifName("failWrapsEOF", k), 0, 1) == 1 {
					st.failErr = verifC03WrappedEOF{}
					verifReach("failure-wrapping-eof")
				}
			}
		}
		if fails {
			failed++
		}
		for fi, f := range st.frames {
			if st.openErr || (st.failAt >= 0 && fi >= st.failAt) {
				break
			}
			for _, c := range f.GetSeries().Chunks {
				x := verifC03Chunk{lbl: f.GetSeries().Labels[0].Value, hash: c.Raw.Hash, mint: c.MinTime, maxt: c.MaxTime}
				sent = append(sent, x)
				if !fails {
					healthy = append(healthy, x)
				}
			}
		}
		stores = append(stores, st)
	}
	abort := verifIntRange("abort", 0, 1) == 1
	req := &storepb.SeriesRequest{
		MinTime: math.MinInt64, MaxTime: math.MaxInt64,
		Matchers:          []storepb.LabelMatcher{{Type: storepb.LabelMatcher_NEQ, Name: "a", Value: ""}},
		ResponseBatchSize: int64(verifIntRange("batchSize", min(verifParam("BATCHMIN", 0), maxBatch), maxBatch)),
	}
	if abort {
		req.PartialResponseStrategy = storepb.PartialResponseStrategy_ABORT
	} else {
		req.PartialResponseStrategy = storepb.PartialResponseStrategy_WARN
	}
	sink := &verifC03Sink{}
	px := verifC03Proxy(stores)
	if verifParam("LAZY", 0) == 1 {
		px.retrievalStrategy = LazyRetrieval
		px.lazyRetrievalMaxBufferedResponses = verifIntRange("lazyBuffer", 1, verifParam("LAZYBUF", 2))
	}
	err := px.Series(req, sink)

	// flatten the answer
	var out []*storepb.Series
	warnings := 0
	for _, r := range sink.got {
		if s := r.GetSeries(); s != nil {
			out = append(out, s)
		}
		if b := r.GetBatch(); b != nil {
			out = append(out, b.Series...)
		}
		if r.GetWarning() != "" {
			warnings++
		}
	}
	if failed > 0 {
		if abort {
			verifAssert(err != nil, "abort-strategy-fails-the-request")
			verifReach("aborted")
			return
		}
		verifAssert(err == nil, "warn-strategy-succeeds")
		verifAssert(warnings >= failed, "warn-strategy-reports-a-warning-per-failed-store")
		verifReach("warned")
	} else {
		verifAssert(err == nil, "no-failure-no-error")
		verifAssert(warnings == 0, "no-failure-no-warning")
	}
	if err != nil {
		return
	}
	// sorted, each label set once
	for i := range out {
		verifAssert(len(out[i].Labels) == 1, "labels-kept")
		if i > 0 {
			verifAssert(out[i-1].Labels[0].Value < out[i].Labels[0].Value, "series-sorted-and-unique")
		}
		for j, c := range out[i].Chunks {
			if j > 0 {
				p := out[i].Chunks[j-1]
				verifAssert(verifAny(p.MinTime < c.MinTime, verifAll(p.MinTime == c.MinTime, p.MaxTime <= c.MaxTime)), "chunks-ordered-by-time")
			}
			for j2 := j + 1; j2 < len(out[i].Chunks); j2++ {
				verifAssert(c.Raw.Hash != out[i].Chunks[j2].Raw.Hash, "chunks-distinct")
			}
			// every output chunk was sent by some store for this label set
			from := false
			for _, x := range sent {
				from = verifAny(from, verifAll(x.lbl == out[i].Labels[0].Value, x.hash == c.Raw.Hash))
			}
			verifAssert(from, "no-invented-chunk")
		}
	}
	// completeness: every chunk of a healthy store is in the answer (under its label set)
	for _, x := range healthy {
		found := false
		for i := range out {
			for _, c := range out[i].Chunks {
				found = verifAny(found, verifAll(out[i].Labels[0].Value == x.lbl, c.Raw.Hash == x.hash))
			}
		}
		verifAssert(found, "every-chunk-of-a-healthy-store-delivered")
	}
	if len(out) > 1 {
		verifReach("two-series")
	}
	verifReach("end")
}

func verifRingName(k int) string { return [4]string{"store0", "store1", "store2", "store3"}[k] }
