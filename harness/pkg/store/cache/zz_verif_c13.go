package storecache

import (
	"github.com/prometheus/prometheus/model/labels"
)

const verifC13Block = "01ARZ3NDEKTSV4RRFFQ69G5FAV"

// VerifC13Postings: two posting-list items (label pairs) with equal cache keys are the same item.
func VerifC13Postings() {
	ml := verifParam("L", 2)
	alpha := "a:"
	n1 := verifStr("n1", ml, alpha)
	v1 := verifStr("v1", ml, alpha)
	n2 := verifStr("n2", ml, alpha)
	v2 := verifStr("v2", ml, alpha)
	comp := [2]string{"", "dvs"}[verifIntRange("comp", 0, 1)]
	k1 := CacheKey{Block: verifC13Block, Key: CacheKeyPostings(labels.Label{Name: n1, Value: v1}), Compression: comp}.String()
	k2 := CacheKey{Block: verifC13Block, Key: CacheKeyPostings(labels.Label{Name: n2, Value: v2}), Compression: comp}.String()
	// known finding: Name+":"+Value is ambiguous when a label *name* contains ':'
	verifKnown("C13-postings-colon-in-name", verifAny(verifC13Has(n1, ':'), verifC13Has(n2, ':')))
	same := verifAll(n1 == n2, v1 == v2)
	verifAssert(verifImplies(k1 == k2, same), "postings-keys-distinct")
	verifAssert(verifImplies(same, k1 == k2), "postings-key-deterministic")
	verifReach("end")
}

func verifC13Has(s string, c byte) bool {
	r := false
	for i := 0; i < len(s); i++ {
		r = verifAny(r, s[i] == c)
	}
	return r
}

func verifC13Matcher(name string, ml int, alpha string) *labels.Matcher {
	t := verifIntRange(name+"_type", 0, 3)
	return &labels.Matcher{Type: labels.MatchType(t), Name: verifStr(name+"_n", ml, alpha), Value: verifStr(name+"_v", ml, alpha)}
}

// VerifC13Expanded: expanded-postings items (selector sets) with equal cache keys are the same selector set.
func VerifC13Expanded() {
	ml := verifParam("L", 1)
	alpha := "a\";="
	c1 := verifIntRange("count1", 1, verifParam("M", 2))
	c2 := verifIntRange("count2", 1, verifParam("M", 2))
	var m1, m2 []*labels.Matcher
	for i := 0; i < c1; i++ {
		m1 = append(m1, verifC13Matcher(verifName("a", i), ml, alpha))
	}
	for i := 0; i < c2; i++ {
		m2 = append(m2, verifC13Matcher(verifName("b", i), ml, alpha))
	}
	k1 := CacheKey{Block: verifC13Block, Key: CacheKeyExpandedPostings(LabelMatchersToString(m1))}.String()
	k2 := CacheKey{Block: verifC13Block, Key: CacheKeyExpandedPostings(LabelMatchersToString(m2))}.String()
	same := c1 == c2
	if same {
		for i := range m1 {
			same = verifAll(same, m1[i].Type == m2[i].Type, m1[i].Name == m2[i].Name, m1[i].Value == m2[i].Value)
		}
	}
	verifAssert(verifImplies(k1 == k2, same), "expanded-postings-keys-distinct")
	verifReach("end")
}

// VerifC13ExpandedInject: the field-injection shape. One selector with a long name (NL bytes over the
// characters the key syntax itself uses) against two short selectors: a key that writes a field unescaped lets the
// long name spell out the text of the two-selector key. Fixed lengths keep the path count down.
func VerifC13ExpandedInject() {
	nl := verifParam("NL", 7)
	alpha := "a\";="
	long := []*labels.Matcher{{Type: labels.MatchEqual, Name: verifStrN("ln", nl, alpha), Value: verifStrN("lv", 1, "ab")}}
	short := []*labels.Matcher{
		{Type: labels.MatchEqual, Name: verifStrN("s1n", 1, "ab"), Value: verifStrN("s1v", 1, "ab")},
		{Type: labels.MatchEqual, Name: verifStrN("s2n", 1, "ab"), Value: verifStrN("s2v", 1, "ab")},
	}
	k1 := CacheKey{Block: verifC13Block, Key: CacheKeyExpandedPostings(LabelMatchersToString(long))}.String()
	k2 := CacheKey{Block: verifC13Block, Key: CacheKeyExpandedPostings(LabelMatchersToString(short))}.String()
	verifAssert(k1 != k2, "expanded-postings-injection-distinct")
	verifReach("end")
}

type verifC13Conv struct {
	n, v string
	t    labels.MatchType
}

func (c *verifC13Conv) GetValue() string                       { return c.v }
func (c *verifC13Conv) GetName() string                        { return c.n }
func (c *verifC13Conv) MatcherType() (labels.MatchType, error) { return c.t, nil }

// VerifC13Matchers: converted-matcher cache items with equal keys are the same (name, type, value).
func VerifC13Matchers() {
	ml := verifParam("L", 2)
	alpha := "a=~!"
	a := &verifC13Conv{n: verifStr("n1", ml, alpha), v: verifStr("v1", ml, alpha), t: labels.MatchType(2 + verifIntRange("t1", 0, 1))}
	b := &verifC13Conv{n: verifStr("n2", ml, alpha), v: verifStr("v2", ml, alpha), t: labels.MatchType(2 + verifIntRange("t2", 0, 1))}
	k1, err1 := cacheKey(a)
	k2, err2 := cacheKey(b)
	verifAssert(err1 == nil, "no-error")
	verifAssert(err2 == nil, "no-error")
	// Only regex matchers are cached (defaultIsCacheableFunc), so both items are =~ or !~ matchers.
	// known finding: name+type+value is ambiguous when a label *name* contains the operator characters
	verifKnown("C13-matcher-key-operator-chars-in-name", verifAny(
		verifC13Has(a.n, '='), verifC13Has(a.n, '~'), verifC13Has(a.n, '!'), verifC13Has(b.n, '='), verifC13Has(b.n, '~'), verifC13Has(b.n, '!')))
	same := verifAll(a.n == b.n, a.v == b.v, a.t == b.t)
	verifAssert(verifImplies(k1 == k2, same), "matcher-keys-distinct")
	verifReach("end")
}


var verifC13Lens = [12]int{63, 64, 65, 127, 128, 129, 255, 256, 257, 511, 512, 513}

func verifC13Rep(c byte, n int) string {
	b := make([]byte, n)
	for i := range b {
		b[i] = c
	}
	return string(b)
}

// VerifC13PostingsLong: long label pairs whose total length sits on a power-of-two boundary (typical
// fixed-buffer sizes) and which differ only in their last two value bytes still get different keys.
func VerifC13PostingsLong() {
	total := verifC13Lens[verifIntRange("lenIdx", 0, verifParam("LI", 11))]
	nl := [3]int{1, 8, total / 2}[verifIntRange("nameLen", 0, 2)]
	name := verifC13Rep('n', nl)
	pre := verifC13Rep('v', total-nl-2)
	v1 := pre + verifStrN("s1", 2, "ab")
	v2 := pre + verifStrN("s2", 2, "ab")
	k1 := CacheKey{Block: verifC13Block, Key: CacheKeyPostings(labels.Label{Name: name, Value: v1})}.String()
	k2 := CacheKey{Block: verifC13Block, Key: CacheKeyPostings(labels.Label{Name: name, Value: v2})}.String()
	verifAssert(verifImplies(k1 == k2, v1 == v2), "long-postings-keys-distinct")
	m1 := []*labels.Matcher{{Type: labels.MatchEqual, Name: name, Value: v1}}
	m2 := []*labels.Matcher{{Type: labels.MatchEqual, Name: name, Value: v2}}
	e1 := CacheKey{Block: verifC13Block, Key: CacheKeyExpandedPostings(LabelMatchersToString(m1))}.String()
	e2 := CacheKey{Block: verifC13Block, Key: CacheKeyExpandedPostings(LabelMatchersToString(m2))}.String()
	verifAssert(verifImplies(e1 == e2, v1 == v2), "long-expanded-keys-distinct")
	verifReach("end")
}
