package storecache

import (
	"bytes"
	"context"
	"errors"
	"io"
	"sort"
	"strings"
	"time"

	"github.com/go-kit/log"
	"github.com/thanos-io/objstore"

	"github.com/thanos-io/thanos/pkg/cache"
)

// ---- in-memory bucket ----

type verifC14Bucket struct {
	objs   map[string][]byte
	names  []string
	gets   int
	ranges int
}

var errVerifC14NotFound = errors.New("not found")

func (b *verifC14Bucket) Close() error                  { return nil }
func (b *verifC14Bucket) Provider() objstore.ObjProvider { return objstore.MEMORY }
func (b *verifC14Bucket) Name() string                  { return "verif" }
func (b *verifC14Bucket) Upload(context.Context, string, io.Reader, ...objstore.ObjectUploadOption) error {
	return errors.New("read only")
}
func (b *verifC14Bucket) Delete(context.Context, string) error { return errors.New("read only") }
func (b *verifC14Bucket) list(dir string, recursive bool) []string {
	prefix := dir
	if prefix != "" && !strings.HasSuffix(prefix, "/") {
		prefix += "/"
	}
	seen := map[string]bool{}
	var out []string
	for _, n := range b.names {
		if !strings.HasPrefix(n, prefix) {
			continue
		}
		rest := n[len(prefix):]
		if i := strings.Index(rest, "/"); i >= 0 && !recursive {
			d := prefix + rest[:i+1]
			if !seen[d] {
				seen[d] = true
				out = append(out, d)
			}
			continue
		}
		out = append(out, n)
	}
	sort.Strings(out)
	return out
}
func (b *verifC14Bucket) Iter(_ context.Context, dir string, f func(string) error, options ...objstore.IterOption) error {
	p := objstore.ApplyIterOptions(options...)
	for _, n := range b.list(dir, p.Recursive) {
		if err := f(n); err != nil {
			return err
		}
	}
	return nil
}
func (b *verifC14Bucket) IterWithAttributes(context.Context, string, func(objstore.IterObjectAttributes) error, ...objstore.IterOption) error {
	return errors.New("unsupported")
}
func (b *verifC14Bucket) SupportedIterOptions() []objstore.IterOptionType {
	return []objstore.IterOptionType{objstore.Recursive}
}
func (b *verifC14Bucket) Get(_ context.Context, name string) (io.ReadCloser, error) {
	d, ok := b.objs[name]
	if !ok {
		return nil, errVerifC14NotFound
	}
	b.gets++
	return io.NopCloser(bytes.NewReader(d)), nil
}
func (b *verifC14Bucket) GetRange(_ context.Context, name string, off, length int64) (io.ReadCloser, error) {
	d, ok := b.objs[name]
	if !ok {
		return nil, errVerifC14NotFound
	}
	b.ranges++
	if off > int64(len(d)) {
		off = int64(len(d))
	}
	end := off + length
	if length < 0 || end > int64(len(d)) {
		end = int64(len(d))
	}
	return io.NopCloser(bytes.NewReader(d[off:end])), nil
}
func (b *verifC14Bucket) Exists(_ context.Context, name string) (bool, error) {
	_, ok := b.objs[name]
	return ok, nil
}
func (b *verifC14Bucket) IsObjNotFoundErr(err error) bool  { return err == errVerifC14NotFound }
func (b *verifC14Bucket) IsAccessDeniedErr(err error) bool { return false }
func (b *verifC14Bucket) Attributes(_ context.Context, name string) (objstore.ObjectAttributes, error) {
	d, ok := b.objs[name]
	if !ok {
		return objstore.ObjectAttributes{}, errVerifC14NotFound
	}
	return objstore.ObjectAttributes{Size: int64(len(d))}, nil
}

// ---- lossy cache: any stored entry may be gone at any later fetch ----

type verifC14Cache struct {
	data    map[string][]byte
	fetches int
	lossy   bool
}

func (c *verifC14Cache) Name() string { return "verif" }
func (c *verifC14Cache) Store(d map[string][]byte, _ time.Duration) {
	for k, v := range d {
		c.data[k] = append([]byte{}, v...)
	}
}
func (c *verifC14Cache) Fetch(_ context.Context, keys []string) map[string][]byte {
	out := map[string][]byte{}
	for _, k := range keys {
		if v, ok := c.data[k]; ok {
			c.fetches++
			if c.lossy && verifIntRange(verifName("evicted", c.fetches), 0, 1) == 1 {
				delete(c.data, k)
				continue
			}
			out[k] = v
		}
	}
	return out
}

// ---- JSON of the two cached value types as an opaque round-tripping container ----

func verifC14Marshal(v any) ([]byte, error) {
	switch x := v.(type) {
	case objstore.ObjectAttributes:
		return []byte{'A', byte(x.Size)}, nil
	case []string:
		return []byte("L" + strings.Join(x, "\x00")), nil
	}
	return nil, errors.New("verif: unsupported json value")
}

func verifC14Unmarshal(d []byte, v any) error {
	switch p := v.(type) {
	case *objstore.ObjectAttributes:
		if len(d) != 2 || d[0] != 'A' {
			return errors.New("bad attributes")
		}
		p.Size = int64(d[1])
		return nil
	case *[]string:
		if len(d) < 1 || d[0] != 'L' {
			return errors.New("bad list")
		}
		if len(d) == 1 {
			*p = nil
			return nil
		}
		*p = strings.Split(string(d[1:]), "\x00")
		return nil
	}
	return errors.New("verif: unsupported json target")
}

func verifC14ReadAll(r io.Reader, chunk int) []byte {
	var out []byte
	buf := make([]byte, chunk)
	for i := 0; i < 64; i++ {
		n, err := r.Read(buf)
		out = append(out, buf[:n]...)
		if err != nil {
			return out
		}
	}
	return out
}

func verifC14Setup(size int, lossy bool) (*CachingBucket, *verifC14Bucket, []byte) {
	obj := []byte(verifStrN("object", size, ""))
	bkt := &verifC14Bucket{objs: map[string][]byte{"dir/obj": obj, "dir/sub/x": {1}, "dir/sub/deep/y": {2}}, names: []string{"dir/obj", "dir/sub/x", "dir/sub/deep/y"}}
	c := &verifC14Cache{data: map[string][]byte{}, lossy: lossy}
	cfg := cache.NewCachingBucketConfig()
	all := func(string) bool { return true }
	cfg.CacheGetRange("r", c, all, int64(verifParam("SUBRANGE", 2)), time.Hour, time.Hour, verifIntRange("maxSubRequests", 0, 2))
	cfg.CacheGet("g", c, all, verifParam("MAXCACHEABLE", 3), time.Hour, time.Hour, time.Hour)
	cfg.CacheIter("i", c, all, time.Hour, JSONIterCodec{}, "")
	cfg.CacheExists("e", c, all, time.Hour, time.Hour)
	cfg.CacheAttributes("a", c, all, time.Hour)
	cb, err := NewCachingBucket(bkt, cfg, log.NewNopLogger(), nil)
	verifAssert(err == nil, "caching-bucket-created")
	return cb, bkt, obj
}

// VerifC14Ranges: range reads through the caching bucket return the underlying bytes, whatever was cached by
// earlier reads and whichever cache entries have been lost since.
func VerifC14Ranges() {
	size := verifIntRange("size", 1, verifParam("SIZE", 5))
	cb, _, obj := verifC14Setup(size, true)
	ctx := context.Background()
	reads := verifParam("READS", 2)
	for k := 0; k < reads; k++ {
		off := verifIntRange(verifName("off", k), 0, size-1)
		length := verifIntRange(verifName("len", k), 1, size+1)
		r, err := cb.GetRange(ctx, "dir/obj", int64(off), int64(length))
		verifAssert(err == nil, "range-read-ok")
		if err != nil {
			return
		}
		got := verifC14ReadAll(r, 2)
		end := off + length
		if end > size {
			end = size
		}
		verifAssert(len(got) == end-off, "range-read-length")
		if len(got) == end-off {
			for i := range got {
				verifAssert(got[i] == obj[off+i], "range-read-bytes")
			}
		}
	}
	verifReach("end")
}

// VerifC14Get: full reads (in small chunks, objects below and above the cacheable size), existence,
// attributes and listings (recursive and not) answer as the underlying bucket, also on repeated calls.
func VerifC14Get() {
	size := verifIntRange("size", 1, verifParam("SIZE", 5))
	cb, bkt, obj := verifC14Setup(size, verifParam("LOSSY", 0) == 1)
	ctx := context.Background()
	for k := 0; k < 2; k++ {
		r, err := cb.Get(ctx, "dir/obj")
		verifAssert(err == nil, "get-ok")
		if err != nil {
			return
		}
		got := verifC14ReadAll(r, verifIntRange(verifName("chunk", k), 1, 3))
		verifAssert(len(got) == size, "get-length")
		if len(got) == size {
			for i := range got {
				verifAssert(got[i] == obj[i], "get-bytes")
			}
		}
		ok, err := cb.Exists(ctx, "dir/obj")
		verifAssert(err == nil && ok, "exists-as-underlying")
		ok, err = cb.Exists(ctx, "dir/none")
		verifAssert(err == nil && !ok, "not-exists-as-underlying")
		a, err := cb.Attributes(ctx, "dir/obj")
		verifAssert(err == nil && a.Size == int64(size), "attributes-as-underlying")
		for _, rec := range []bool{false, true, false} {
			var got, want []string
			var opts []objstore.IterOption
			if rec {
				opts = append(opts, objstore.WithRecursiveIter())
			}
			verifAssert(cb.Iter(ctx, "dir", func(n string) error { got = append(got, n); return nil }, opts...) == nil, "iter-ok")
			_ = bkt.Iter(ctx, "dir", func(n string) error { want = append(want, n); return nil }, opts...)
			verifAssert(len(got) == len(want), "listing-as-underlying")
			if len(got) == len(want) {
				for i := range got {
					verifAssert(got[i] == want[i], "listing-as-underlying")
				}
			}
		}
	}
	verifReach("end")
}
