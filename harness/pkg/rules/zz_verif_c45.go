package rules

import (
	"text/template"
	"text/template/parse"

	"github.com/prometheus/prometheus/model/labels"

	"github.com/thanos-io/thanos/pkg/rules/rulespb"
	"github.com/thanos-io/thanos/pkg/store/labelpb"
)

// verifC45Templated: a label value is templated iff it contains an action "{{".
func verifC45Templated(v string) bool {
	r := false
	for i := 0; i+1 < len(v); i++ {
		r = verifAny(r, verifAll(v[i] == '{', v[i+1] == '{'))
	}
	return r
}

// verifC45Parse replaces (*text/template.Template).Parse (the template lexer/parser is stdlib and uses
// reflection): the node list has the shape the real parser produces for "text", "{{action}}" and
// "text{{action}}": one text node, one action node, or text node followed by action node.
func verifC45Parse(t *template.Template, text string) (*template.Template, error) {
	root := &parse.ListNode{NodeType: parse.NodeList}
	idx := -1
	for i := 0; i+1 < len(text); i++ {
		if idx < 0 {
			if text[i] == '{' {
				if text[i+1] == '{' {
					idx = i
				}
			}
		}
	}
	switch {
	case len(text) == 0:
	case idx < 0:
		root.Nodes = []parse.Node{&parse.TextNode{NodeType: parse.NodeText, Text: []byte(text)}}
	case idx == 0:
		root.Nodes = []parse.Node{&parse.ActionNode{NodeType: parse.NodeAction}}
	default:
		root.Nodes = []parse.Node{&parse.TextNode{NodeType: parse.NodeText, Text: []byte(text[:idx])}, &parse.ActionNode{NodeType: parse.NodeAction}}
	}
	return &template.Template{Tree: &parse.Tree{Root: root}}, nil
}

var verifC45Names = [3]string{"a", "b", "c"}

// VerifC45Matches: a rule whose non-templated labels satisfy all selectors of at least one set is returned.
func VerifC45Matches() {
	// rule labels: subset of {a, b} with symbolic values
	var ls []labels.Label
	var vals [2]string
	var has [2]bool
	for i := 0; i < 2; i++ {
		if verifIntRange(verifName("has", i), 0, 1) == 1 {
			has[i] = true
			if i == 0 || verifParam("BOTH", 0) == 1 {
				// literal text (possibly empty) optionally followed by a template action that the real parser accepts
				vals[i] = verifStr(verifName("val", i), verifParam("LV", 2), "x")
				if verifIntRange(verifName("templ", i), 0, 1) == 1 {
					vals[i] += "{{.A}}"
				}
			} else {
				vals[i] = "x"
			}
			ls = append(ls, labels.Label{Name: verifC45Names[i], Value: vals[i]})
		}
	}
	lset := labels.New(ls...)
	nsets := verifIntRange("sets", 1, verifParam("S", 2))
	var sets [][]*labels.Matcher
	anySet := false
	for s := 0; s < nsets; s++ {
		maxM := verifParam("M", 2)
		if s == 0 && verifParam("BOTH", 0) == 0 {
			maxM = 1
		}
		nm := verifIntRange(verifName("matchers", s), 1, maxM)
		var ms []*labels.Matcher
		all := true
		for j := 0; j < nm; j++ {
			name := verifIntRange(verifName("mname", s, j), 0, 2)
			neq := verifIntRange(verifName("mneq", s, j), 0, 1) == 1
			val := verifStr(verifName("mval", s, j), 1, "x")
			mt := labels.MatchEqual
			if neq {
				mt = labels.MatchNotEqual
			}
			ms = append(ms, &labels.Matcher{Type: mt, Name: verifC45Names[name], Value: val})
			// reference semantics: the label's value if present and not templated, else ""
			actual := ""
			if name < 2 {
				if has[name] {
					if !verifC45Templated(vals[name]) {
						actual = vals[name]
					}
				}
			}
			ok := actual == val
			if neq {
				ok = !ok
			}
			all = verifAll(all, ok)
		}
		sets = append(sets, ms)
		anySet = verifAny(anySet, all)
	}
	got := matches(sets, lset)
	verifAssert(verifImplies(anySet, got), "rule-satisfying-one-set-is-returned")
	if nsets > 1 {
		verifReach("two-sets")
	}
	verifReach("end")
}

func verifC45Rule(name string, ls labels.Labels) *rulespb.Rule {
	return rulespb.NewRecordingRule(&rulespb.RecordingRule{Name: name, Query: "q", Labels: labelpb.ZLabelSet{Labels: labelpb.ZLabelsFromPromLabels(ls)}})
}

// VerifC45Dedup: replicas of one rule (equal up to the replica labels) collapse to one rule; distinct rules stay.
func VerifC45Dedup() {
	nrep := verifIntRange("replicaLabels", 1, verifParam("RL", 2))
	replica := map[string]struct{}{}
	rnames := [2]string{"r1", "r2"}
	for i := 0; i < nrep; i++ {
		replica[rnames[i]] = struct{}{}
	}
	n := verifIntRange("rules", 2, verifParam("N", 3))
	var rules []*rulespb.Rule
	var keys []string
	for i := 0; i < n; i++ {
		k := verifStrN(verifName("k", i), 1, "xy") // distinguishing (non-replica) label value
		ls := []labels.Label{{Name: "a", Value: k}}
		for j := 0; j < nrep; j++ {
			if verifIntRange(verifName("hasr", i, j), 0, 1) == 1 {
				ls = append(ls, labels.Label{Name: rnames[j], Value: verifStrN(verifName("rv", i, j), 1, "12")})
			}
		}
		rules = append(rules, verifC45Rule("rule", labels.New(ls...)))
		keys = append(keys, k)
	}
	out := dedupRules(rules, replica)
	// expected number of distinct rules = number of distinct k values
	for i := range out {
		for name := range replica {
			verifAssert(!out[i].GetLabels().Has(name), "replica-label-removed")
		}
		for j := i + 1; j < len(out); j++ {
			verifAssert(out[i].GetLabels().Get("a") != out[j].GetLabels().Get("a"), "replicas-collapsed-to-one-rule")
		}
	}
	for _, k := range keys {
		found := false
		for i := range out {
			found = verifAny(found, out[i].GetLabels().Get("a") == k)
		}
		verifAssert(found, "every-rule-kept")
	}
	verifReach("end")
}
