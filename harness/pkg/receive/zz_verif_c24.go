package receive

import (
	"context"
	"net/http"
	"sync"

	"github.com/go-kit/log"

	"github.com/thanos-io/thanos/pkg/gate"
)

// verifC24Limiter is the observation point: every request that passed the write gate enters here.
type verifC24Limiter struct {
	mu       sync.Mutex
	inflight int
	max      int
}

func (l *verifC24Limiter) QueryMetaMonitoring(context.Context) error { return nil }
func (l *verifC24Limiter) isUnderLimit(string) (bool, error) {
	l.mu.Lock()
	l.inflight++
	verifAssert(l.inflight <= l.max, "in-flight-requests-within-write-concurrency")
	l.mu.Unlock()
	verifYield() // the request is being processed: other requests may arrive, give up, finish
	l.mu.Lock()
	l.inflight--
	l.mu.Unlock()
	return false, nil // answer "over the series limit": the handler returns through its deferred gate.Done
}

// VerifC24Gate: N concurrent remote-write requests against a write gate of size MAX; one client gives up
// (its request context is cancelled) at an arbitrary moment. Never more than MAX requests in flight, and no
// request crashes the receiver (a panic is a violation).
func VerifC24Gate() {
	max := verifIntRange("maxConcurrency", 1, verifParam("MAX", 1))
	n := verifParam("REQ", 3)
	obs := &verifC24Limiter{max: max}
	lim := &Limiter{writeGate: gate.New(nil, max, gate.OperationName("verif")), headSeriesLimiter: obs, requestLimiter: verifC22NoLimit{}}
	h := &Handler{logger: log.NewNopLogger(), options: &Options{TenantHeader: "THANOS-TENANT", DefaultTenantID: "t"}, Limiter: lim}
	ctxs := make([]context.Context, n)
	cancels := make([]context.CancelFunc, n)
	for i := range ctxs {
		ctxs[i], cancels[i] = context.WithCancel(context.Background())
	}
	otlp := verifIntRange("otlp", 0, verifParam("OTLP", 1)) == 1
	var wg sync.WaitGroup
	for i := 0; i < n; i++ {
		wg.Add(1)
		go func(i int) {
			defer wg.Done()
			w := &verifC22Writer{header: http.Header{}}
			r := (&http.Request{Header: http.Header{}, Method: "POST"}).WithContext(ctxs[i])
			if otlp {
				h.receiveOTLPHTTP(w, r)
			} else {
				h.receiveHTTP(w, r)
			}
		}(i)
	}
	// the client of the last request gives up at some point
	wg.Add(1)
	go func() {
		defer wg.Done()
		cancels[n-1]()
	}()
	wg.Wait()
	verifAssert(obs.inflight == 0, "all-requests-finished")
	verifReach("end")
}
