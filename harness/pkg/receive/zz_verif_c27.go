package receive

import (
	"path/filepath"

	"github.com/thanos-io/thanos/pkg/store/storepb/prompb"
)

var verifC27Exact = [3]string{"a", "ab", "b"}
var verifC27Glob = [6]string{"a*", "?b", "*", "b?", "[ab]*", "a"}

// VerifC27Routing: a tenant is served by the first configured hashring whose tenant list matches it exactly or
// by glob, a hashring without tenant list matching everything; repeated requests get the same hashring.
// The multi hashring is built by NewMultiHashring from a configuration.
func VerifC27Routing() {
	tenant := verifStr("tenant", verifParam("L", 2), "ab")
	nr := verifIntRange("hashrings", 1, verifParam("RINGS", 3))
	type ringSpec struct {
		def   bool
		exact []string
		globs []string
	}
	var specs []ringSpec
	var cfg []HashringConfig
	for i := 0; i < nr; i++ {
		var rs ringSpec
		hc := HashringConfig{Hashring: verifRingAddr[i], Endpoints: []Endpoint{{Address: verifRingAddr[i]}}}
		switch verifIntRange(verifName("kind", i), 0, 2) {
		case 0:
			rs.def = true
		case 1:
			k := verifIntRange(verifName("exacts", i), 1, 2)
			for j := 0; j < k; j++ {
				e := verifC27Exact[verifIntRange(verifName("exact", i, j), 0, 2)]
				hc.Tenants = append(hc.Tenants, e)
				rs.exact = append(rs.exact, e)
			}
			hc.TenantMatcherType = TenantMatcherTypeExact
			if verifIntRange(verifName("exactDefaultType", i), 0, 1) == 1 {
				hc.TenantMatcherType = "" // the default matcher type is exact
			}
		default:
			k := verifIntRange(verifName("globs", i), 1, 2)
			for j := 0; j < k; j++ {
				g := verifC27Glob[verifIntRange(verifName("glob", i, j), 0, 5)]
				hc.Tenants = append(hc.Tenants, g)
				rs.globs = append(rs.globs, g)
			}
			hc.TenantMatcherType = TenantMatcherGlob
		}
		specs = append(specs, rs)
		cfg = append(cfg, hc)
	}
	mh, err := NewMultiHashring(AlgorithmHashmod, 1, cfg, nil)
	verifAssert(err == nil, "multi-hashring-built")
	if err != nil {
		return
	}
	m := mh
	// reference: first matching ring
	want := -1
	for i, rs := range specs {
		hit := rs.def
		for _, e := range rs.exact {
			if e == tenant {
				hit = true
			}
		}
		for _, g := range rs.globs {
			if ok, _ := filepath.Match(g, tenant); ok {
				hit = true
			}
		}
		if hit {
			want = i
			break
		}
	}
	ts := &prompb.TimeSeries{}
	e1, err1 := m.GetN(tenant, ts, 0)
	if want < 0 {
		verifAssert(err1 != nil, "no-matching-hashring-is-an-error")
		verifReach("no-match")
	} else {
		verifAssert(err1 == nil, "matching-hashring-found")
		verifAssert(e1.Address == verifRingAddr[want], "first-matching-hashring-serves-the-tenant")
		// repeated request (now answered from the cache)
		e2, err2 := m.GetN(tenant, ts, 0)
		verifAssert(err2 == nil, "repeated-request-ok")
		verifAssert(e2.Address == e1.Address, "repeated-request-same-hashring")
		if want > 0 {
			verifReach("later-ring")
		}
	}
	verifReach("end")
}
