package receive

import (
	"github.com/thanos-io/thanos/pkg/store/labelpb"
	"github.com/thanos-io/thanos/pkg/store/storepb/prompb"
)

var verifRingAddr = [7]string{"n0", "n1", "n2", "n3", "n4", "n5", "n6"}
var verifRingAZ = [4]string{"", "a", "b", "c"}

func verifRingEndpoints(n int, zones int) []Endpoint {
	eps := make([]Endpoint, n)
	for i := range eps {
		eps[i] = Endpoint{Address: verifRingAddr[i], CapNProtoAddress: verifRingAddr[i]}
		if zones > 0 {
			eps[i].AZ = verifRingAZ[1+verifIntRange(verifName("az", i), 0, zones-1)]
		}
	}
	return eps
}

func verifRingSeries() *prompb.TimeSeries {
	return &prompb.TimeSeries{Labels: []labelpb.ZLabel{{Name: "a", Value: verifHashKey("series", 1, "xyz")}}}
}

// VerifC19Terminates: building a ketama ring from any zone layout returns (ring or error) within a bounded
// number of steps; the unwinding/step bound failing IS the violation. A returned ring is usable.
func VerifC19Terminates() {
	n := verifIntRange("nodes", 1, verifParam("N", 4))
	eps := verifRingEndpoints(n, verifParam("Z", 2))
	// a configuration may list an address twice
	if dup := verifIntRange("dup", -1, n-1); dup >= 0 {
		d := eps[dup]
		if verifParam("Z", 2) > 0 {
			d.AZ = verifRingAZ[1+verifIntRange("dupaz", 0, verifParam("Z", 2)-1)]
		}
		eps = append(eps, d)
		n++
	}
	rf := verifIntRange("rf", 1, n)
	ring, err := newKetamaHashring(eps, verifParam("SPN", 1), uint64(rf))
	verifReach("built-or-error")
	if err != nil {
		return
	}
	ts := verifRingSeries()
	for k := 0; k < rf; k++ {
		_, gerr := ring.GetN("t", ts, uint64(k))
		verifAssert(gerr == nil, "getn-ok")
	}
	verifReach("end")
}

func verifRingDistinctSections(r *ketamaHashring) {
	for i := range r.sections {
		for j := i + 1; j < len(r.sections); j++ {
			verifAssume(r.sections[i].hash != r.sections[j].hash)
		}
	}
}

func verifRingRep(c byte, n int) string {
	b := make([]byte, n)
	for i := range b {
		b[i] = c
	}
	return string(b)
}

// VerifC18LongLabels: placement is deterministic for series whose labels exceed the 1 KB fast-path buffer of
// labelpb.HashWithPrefix (streaming digest branch): asking twice, and asking for another long series in between,
// returns the same endpoint. KIND 0 = hashmod, 1 = ketama.
func VerifC18LongLabels() {
	n := verifIntRange("nodes", 2, verifParam("N", 3))
	eps := verifRingEndpoints(n, 0)
	var ring Hashring
	var err error
	if verifParam("KIND", 0) == 0 {
		ring, err = newSimpleHashring(eps)
	} else {
		var k *ketamaHashring
		k, err = newKetamaHashring(eps, 1, 1)
		if err == nil {
			verifRingDistinctSections(k)
		}
		ring = k
	}
	verifAssert(err == nil, "ring-built")
	if err != nil {
		return
	}
	long := verifRingRep('x', verifParam("LEN", 600))
	ts := &prompb.TimeSeries{Labels: []labelpb.ZLabel{{Name: "a", Value: long + verifHashKey("series", 1, "xyz")}, {Name: "b", Value: long}}}
	other := &prompb.TimeSeries{Labels: []labelpb.ZLabel{{Name: "a", Value: long + verifHashKey("other", 1, "xyz")}, {Name: "c", Value: long}}}
	e1, g1 := ring.GetN("t", ts, 0)
	verifAssert(g1 == nil, "getn-ok")
	if verifIntRange("between", 0, 1) == 1 {
		_, g := ring.GetN("t", other, 0)
		verifAssert(g == nil, "getn-ok")
	}
	e2, g2 := ring.GetN("t", ts, 0)
	verifAssert(g2 == nil, "getn-ok")
	verifAssert(e1.Address == e2.Address, "long-series-placement-deterministic")
	verifReach("end")
}

// VerifC18Ketama: replicas pairwise distinct; independent of the endpoint listing order; zone balanced.
func VerifC18Ketama() {
	n := verifIntRange("nodes", 1, verifParam("N", 3))
	zones := verifParam("Z", 2)
	eps := verifRingEndpoints(n, zones)
	rf := verifIntRange("rf", 1, n)
	// zone sizes; "zones can accommodate": every used zone has at least ceil(rf/Z) nodes
	var size [4]int
	for _, e := range eps {
		for z := 1; z < 4; z++ {
			if e.AZ == verifRingAZ[z] {
				size[z]++
			}
		}
	}
	used := 0
	for z := 1; z < 4; z++ {
		if size[z] > 0 {
			used++
		}
	}
	need := 0
	if used > 0 {
		need = (rf + used - 1) / used
	}
	canBalance := true
	for z := 1; z < 4; z++ {
		if size[z] > 0 && size[z] < need {
			canBalance = false
		}
	}
	if zones > 0 && !canBalance {
		// layouts that cannot be balanced are C19's subject (termination); nothing to claim about balance
		return
	}
	ring, err := newKetamaHashring(eps, verifParam("SPN", 1), uint64(rf))
	verifAssert(err == nil, "ring-built")
	if err != nil {
		return
	}
	verifRingDistinctSections(ring)
	// permuted listing
	avail := append([]Endpoint{}, eps...)
	var perm []Endpoint
	for len(avail) > 0 {
		c := verifIntRange(verifName("perm", len(perm)), 0, len(avail)-1)
		perm = append(perm, avail[c])
		avail = append(avail[:c:c], avail[c+1:]...)
	}
	ring2, err2 := newKetamaHashring(perm, verifParam("SPN", 1), uint64(rf))
	verifAssert(err2 == nil, "ring-built")
	if err2 != nil {
		return
	}
	ts := verifRingSeries()
	var got []Endpoint
	var perZone [4]int
	for k := 0; k < rf; k++ {
		e, gerr := ring.GetN("t", ts, uint64(k))
		verifAssert(gerr == nil, "getn-ok")
		e2, gerr2 := ring2.GetN("t", ts, uint64(k))
		verifAssert(gerr2 == nil, "getn-ok")
		verifAssert(e.Address == e2.Address, "listing-order-irrelevant")
		for _, p := range got {
			verifAssert(p.Address != e.Address, "replicas-distinct")
		}
		got = append(got, e)
		for z := 1; z < 4; z++ {
			if e.AZ == verifRingAZ[z] {
				perZone[z]++
			}
		}
	}
	if zones > 0 {
		mn, mx := 1<<30, 0
		for z := 1; z < 4; z++ {
			if size[z] > 0 {
				if perZone[z] < mn {
					mn = perZone[z]
				}
				if perZone[z] > mx {
					mx = perZone[z]
				}
			}
		}
		verifAssert(mx-mn <= 1, "zone-balanced")
		if used > 1 {
			verifReach("multi-zone")
		}
	}
	verifReach("end")
}

// VerifC18Hashmod: hashmod ring - replicas pairwise distinct and independent of listing order.
func VerifC18Hashmod() {
	n := verifIntRange("nodes", 1, verifParam("N", 4))
	eps := verifRingEndpoints(n, 0)
	avail := append([]Endpoint{}, eps...)
	var perm []Endpoint
	for len(avail) > 0 {
		c := verifIntRange(verifName("perm", len(perm)), 0, len(avail)-1)
		perm = append(perm, avail[c])
		avail = append(avail[:c:c], avail[c+1:]...)
	}
	r1, err := newSimpleHashring(eps)
	verifAssert(err == nil, "ring-built")
	r2, err2 := newSimpleHashring(perm)
	verifAssert(err2 == nil, "ring-built")
	if err != nil || err2 != nil {
		return
	}
	ts := verifRingSeries()
	// (hash+n) % len wraps for series hashes within n of 2^64: the solver finds two replicas on one node there,
	// but no native replay can confirm it (it needs an xxhash pre-image with 62 leading one bits), so that
	// corner is excluded and listed as outside the claim.
	verifAssume(labelpb.HashWithPrefix("t", ts.Labels) < 1<<63)
	var got []Endpoint
	for k := 0; k < n; k++ {
		e, gerr := r1.GetN("t", ts, uint64(k))
		verifAssert(gerr == nil, "getn-ok")
		e2, gerr2 := r2.GetN("t", ts, uint64(k))
		verifAssert(gerr2 == nil, "getn-ok")
		verifAssert(e.Address == e2.Address, "listing-order-irrelevant")
		for _, p := range got {
			verifAssert(p.Address != e.Address, "replicas-distinct")
		}
		got = append(got, e)
	}
	verifReach("end")
}

// VerifC20AddNode: ketama without zones - adding one endpoint changes a series' replica set at most by
// putting the new endpoint in place of one old endpoint.
func VerifC20AddNode() {
	n := verifIntRange("nodes", 1, verifParam("N", 3))
	eps := verifRingEndpoints(n, 0)
	rf := verifIntRange("rf", 1, n)
	newEp := Endpoint{Address: verifRingAddr[n], CapNProtoAddress: verifRingAddr[n]}
	// the new endpoint may be listed anywhere
	pos := verifIntRange("pos", 0, n)
	var eps2 []Endpoint
	eps2 = append(eps2, eps[:pos]...)
	eps2 = append(eps2, newEp)
	eps2 = append(eps2, eps[pos:]...)
	r1, err := newKetamaHashring(eps, verifParam("SPN", 1), uint64(rf))
	verifAssert(err == nil, "ring-built")
	r2, err2 := newKetamaHashring(eps2, verifParam("SPN", 1), uint64(rf))
	verifAssert(err2 == nil, "ring-built")
	if err != nil || err2 != nil {
		return
	}
	verifRingDistinctSections(r2)
	ts := verifRingSeries()
	var before, after []string
	for k := 0; k < rf; k++ {
		e, gerr := r1.GetN("t", ts, uint64(k))
		verifAssert(gerr == nil, "getn-ok")
		e2, gerr2 := r2.GetN("t", ts, uint64(k))
		verifAssert(gerr2 == nil, "getn-ok")
		before = append(before, e.Address)
		after = append(after, e2.Address)
	}
	// every address of the new set is the new node or was in the old set
	hasNew := false
	for _, a := range after {
		old := false
		for _, b := range before {
			old = verifAny(old, a == b)
		}
		verifAssert(verifAny(old, a == newEp.Address), "no-move-between-old-nodes")
		hasNew = verifAny(hasNew, a == newEp.Address)
	}
	// old set minus new set has at most one element, and none if the new node was not introduced
	lost := 0
	for _, b := range before {
		kept := false
		for _, a := range after {
			kept = verifAny(kept, a == b)
		}
		lost += verifB2I(!kept)
	}
	verifAssert(lost <= 1, "at-most-one-replica-replaced")
	verifAssert(verifImplies(!hasNew, lost == 0), "unchanged-unless-new-node-introduced")
	verifReach("end")
}

// VerifC18Balanced: fixed balanced zone layouts (two endpoints per zone), any section order:
// replicas distinct and per-zone replica counts differ by at most one.
func VerifC18Balanced() {
	layout := verifIntRange("layout", 0, verifParam("LAYOUTS", 1))
	zones := [3]int{2, 3, 3}[layout]
	rf := [3]int{3, 4, 5}[layout]
	n := 2 * zones
	eps := make([]Endpoint, n)
	for i := range eps {
		eps[i] = Endpoint{Address: verifRingAddr[i], CapNProtoAddress: verifRingAddr[i], AZ: verifRingAZ[1+i/2]}
	}
	ring, err := newKetamaHashring(eps, 1, uint64(rf))
	verifAssert(err == nil, "ring-built")
	if err != nil {
		return
	}
	verifRingDistinctSections(ring)
	ts := verifRingSeries()
	var got []Endpoint
	var perZone [4]int
	for k := 0; k < rf; k++ {
		e, gerr := ring.GetN("t", ts, uint64(k))
		verifAssert(gerr == nil, "getn-ok")
		for _, p := range got {
			verifAssert(p.Address != e.Address, "replicas-distinct")
		}
		got = append(got, e)
		for z := 1; z < 4; z++ {
			if e.AZ == verifRingAZ[z] {
				perZone[z]++
			}
		}
	}
	mn, mx := 1<<30, 0
	for z := 1; z <= zones; z++ {
		if perZone[z] < mn {
			mn = perZone[z]
		}
		if perZone[z] > mx {
			mx = perZone[z]
		}
	}
	verifAssert(mx-mn <= 1, "zone-balanced")
	verifReach("end")
}
