package receive

import (
	"math"

	"github.com/thanos-io/thanos/pkg/store/storepb/prompb"
	writev2 "github.com/thanos-io/thanos/pkg/store/storepb/prompb/io/prometheus/write/v2"
)

func verifC26Refs(name string, n int, nsym int, inRange bool) []uint32 {
	out := make([]uint32, n)
	for i := range out {
		r := verifUint32(verifName(name, i))
		if inRange {
			verifAssume(r < uint32(nsym))
		}
		out[i] = r
	}
	return out
}

func verifC26Request(inRange bool) writev2.Request {
	nsym := verifIntRange("symbols", 1, verifParam("SYM", 3))
	var w writev2.Request
	for i := 0; i < nsym; i++ {
		w.Symbols = append(w.Symbols, verifStrN(verifName("sym", i), 1, "abc"))
	}
	nts := verifIntRange("series", 1, verifParam("TS", 2))
	for k := 0; k < nts; k++ {
		var t writev2.TimeSeries
		t.LabelsRefs = verifC26Refs(verifName("lref", k), verifIntRange(verifName("nlref", k), 0, verifParam("LR", 4)), nsym, inRange)
		ns := verifIntRange(verifName("nsamples", k), 0, verifParam("S", 2))
		for j := 0; j < ns; j++ {
			t.Samples = append(t.Samples, writev2.Sample{Timestamp: verifInt64(verifName("st", k, j)), Value: verifFloat(verifName("sv", k, j))})
		}
		ne := verifIntRange(verifName("nexemplars", k), 0, verifParam("E", 2))
		for j := 0; j < ne; j++ {
			t.Exemplars = append(t.Exemplars, writev2.Exemplar{
				LabelsRefs: verifC26Refs(verifName("eref", k, j), verifIntRange(verifName("neref", k, j), 0, 2), nsym, inRange),
				Value:      verifFloat(verifName("ev", k, j)), Timestamp: verifInt64(verifName("et", k, j))})
		}
		nh := verifIntRange(verifName("nhist", k), 0, verifParam("H", 1))
		for j := 0; j < nh; j++ {
			h := writev2.Histogram{
				Sum: verifFloat(verifName("hsum", k, j)), Schema: verifInt32(verifName("hschema", k, j)),
				ZeroThreshold: verifFloat(verifName("hzt", k, j)), Timestamp: verifInt64(verifName("ht", k, j)),
				ResetHint: writev2.Histogram_ResetHint(verifIntRange(verifName("hreset", k, j), 0, 3)),
			}
			if verifIntRange(verifName("hfloat", k, j), 0, 1) == 0 {
				h.Count = &writev2.Histogram_CountInt{CountInt: verifUint64(verifName("hcount", k, j))}
				h.ZeroCount = &writev2.Histogram_ZeroCountInt{ZeroCountInt: verifUint64(verifName("hzc", k, j))}
				h.PositiveDeltas = []int64{verifInt64(verifName("hpd", k, j))}
				h.NegativeDeltas = []int64{verifInt64(verifName("hnd", k, j))}
			} else {
				h.Count = &writev2.Histogram_CountFloat{CountFloat: verifFloat(verifName("hcountf", k, j))}
				h.ZeroCount = &writev2.Histogram_ZeroCountFloat{ZeroCountFloat: verifFloat(verifName("hzcf", k, j))}
				h.PositiveCounts = []float64{verifFloat(verifName("hpc", k, j))}
				h.NegativeCounts = []float64{verifFloat(verifName("hnc", k, j))}
			}
			h.PositiveSpans = []writev2.BucketSpan{{Offset: verifInt32(verifName("hpo", k, j)), Length: verifUint32(verifName("hpl", k, j))}}
			h.NegativeSpans = []writev2.BucketSpan{{Offset: verifInt32(verifName("hno", k, j)), Length: verifUint32(verifName("hnl", k, j))}}
			h.CustomValues = []float64{verifFloat(verifName("hcv", k, j))}
			t.Histograms = append(t.Histograms, h)
		}
		w.Timeseries = append(w.Timeseries, t)
	}
	return w
}

func verifC26FEq(a, b float64) bool { return math.Float64bits(a) == math.Float64bits(b) }

func verifC26Check(w writev2.Request, out *prompb.WriteRequest) {
	verifAssert(len(out.Timeseries) == len(w.Timeseries), "series-count")
	if len(out.Timeseries) != len(w.Timeseries) {
		return
	}
	for k, t := range w.Timeseries {
		o := out.Timeseries[k]
		verifAssert(len(o.Labels) == len(t.LabelsRefs)/2, "label-count")
		if len(o.Labels) == len(t.LabelsRefs)/2 {
			for i := range o.Labels {
				verifAssert(o.Labels[i].Name == w.Symbols[t.LabelsRefs[2*i]], "label-name")
				verifAssert(o.Labels[i].Value == w.Symbols[t.LabelsRefs[2*i+1]], "label-value")
			}
		}
		verifAssert(len(o.Samples) == len(t.Samples), "sample-count")
		if len(o.Samples) == len(t.Samples) {
			for i := range o.Samples {
				verifAssert(o.Samples[i].Timestamp == t.Samples[i].Timestamp, "sample-timestamp")
				verifAssert(verifC26FEq(o.Samples[i].Value, t.Samples[i].Value), "sample-value")
			}
		}
		verifAssert(len(o.Exemplars) == len(t.Exemplars), "exemplar-count")
		if len(o.Exemplars) == len(t.Exemplars) {
			for i, e := range t.Exemplars {
				oe := o.Exemplars[i]
				verifAssert(oe.Timestamp == e.Timestamp, "exemplar-timestamp")
				verifAssert(verifC26FEq(oe.Value, e.Value), "exemplar-value")
				verifAssert(len(oe.Labels) == len(e.LabelsRefs)/2, "exemplar-label-count")
				if len(oe.Labels) == len(e.LabelsRefs)/2 {
					for j := range oe.Labels {
						verifAssert(oe.Labels[j].Name == w.Symbols[e.LabelsRefs[2*j]], "exemplar-label-name")
						verifAssert(oe.Labels[j].Value == w.Symbols[e.LabelsRefs[2*j+1]], "exemplar-label-value")
					}
				}
			}
		}
		verifAssert(len(o.Histograms) == len(t.Histograms), "histogram-count")
		if len(o.Histograms) == len(t.Histograms) {
			for i, h := range t.Histograms {
				oh := o.Histograms[i]
				verifAssert(verifC26FEq(oh.Sum, h.Sum), "histogram-sum")
				verifAssert(oh.Schema == h.Schema, "histogram-schema")
				verifAssert(verifC26FEq(oh.ZeroThreshold, h.ZeroThreshold), "histogram-zero-threshold")
				verifAssert(oh.Timestamp == h.Timestamp, "histogram-timestamp")
				verifAssert(int32(oh.ResetHint) == int32(h.ResetHint), "histogram-reset-hint")
				verifAssert(len(oh.PositiveSpans) == 1 && oh.PositiveSpans[0].Offset == h.PositiveSpans[0].Offset && oh.PositiveSpans[0].Length == h.PositiveSpans[0].Length, "histogram-positive-spans")
				verifAssert(len(oh.NegativeSpans) == 1 && oh.NegativeSpans[0].Offset == h.NegativeSpans[0].Offset && oh.NegativeSpans[0].Length == h.NegativeSpans[0].Length, "histogram-negative-spans")
				verifAssert(len(oh.CustomValues) == 1 && verifC26FEq(oh.CustomValues[0], h.CustomValues[0]), "histogram-custom-values")
				switch c := h.Count.(type) {
				case *writev2.Histogram_CountInt:
					oc, ok := oh.Count.(*prompb.Histogram_CountInt)
					verifAssert(ok && oc.CountInt == c.CountInt, "histogram-count-int")
					oz, ok := oh.ZeroCount.(*prompb.Histogram_ZeroCountInt)
					verifAssert(ok && oz.ZeroCountInt == h.ZeroCount.(*writev2.Histogram_ZeroCountInt).ZeroCountInt, "histogram-zero-count-int")
					verifAssert(len(oh.PositiveDeltas) == 1 && oh.PositiveDeltas[0] == h.PositiveDeltas[0], "histogram-positive-deltas")
					verifAssert(len(oh.NegativeDeltas) == 1 && oh.NegativeDeltas[0] == h.NegativeDeltas[0], "histogram-negative-deltas")
				case *writev2.Histogram_CountFloat:
					oc, ok := oh.Count.(*prompb.Histogram_CountFloat)
					verifAssert(ok && verifC26FEq(oc.CountFloat, c.CountFloat), "histogram-count-float")
					oz, ok := oh.ZeroCount.(*prompb.Histogram_ZeroCountFloat)
					verifAssert(ok && verifC26FEq(oz.ZeroCountFloat, h.ZeroCount.(*writev2.Histogram_ZeroCountFloat).ZeroCountFloat), "histogram-zero-count-float")
					verifAssert(len(oh.PositiveCounts) == 1 && verifC26FEq(oh.PositiveCounts[0], h.PositiveCounts[0]), "histogram-positive-counts")
					verifAssert(len(oh.NegativeCounts) == 1 && verifC26FEq(oh.NegativeCounts[0], h.NegativeCounts[0]), "histogram-negative-counts")
				}
			}
		}
	}
}

// VerifC26Faithful: symbol references inside the table => the request is accepted and the v1 request
// describes the same data.
func VerifC26Faithful() {
	w := verifC26Request(true)
	verifAssert(validateV2SymbolRefs(w) == nil, "valid-request-accepted")
	out := translateV2ToV1(w)
	verifC26Check(w, out)
	verifReach("end")
}

// VerifC26Safe: arbitrary symbol references never crash request handling (a panic is the violation):
// the handler's sequence validate -> translate, as in handleV2HTTP.
func VerifC26Safe() {
	w := verifC26Request(false)
	if err := validateV2SymbolRefs(w); err != nil {
		verifReach("rejected")
		return // handleV2HTTP answers 400 Bad Request
	}
	out := translateV2ToV1(w)
	verifC26Check(w, out)
	verifReach("end")
}
