package receive

import (
	"hash"
	"math/rand"

	"github.com/prometheus/client_golang/prometheus"
)

// ketama rings with a reduced number of sections per node: getTenantShard builds its sub-ring with the
// compile-time constant SectionsPerNode (1000); the wrapper calls the real constructor with SPN sections.
func verifC21Ketama(endpoints []Endpoint, _ int, rf uint64) (*ketamaHashring, error) {
	return newKetamaHashring(endpoints, verifParam("SPN", 1), rf)
}

// math/rand source whose stream is an uninterpreted function of (seed, position): equal seeds give equal
// streams, nothing else is assumed about the values
type verifC21Src struct {
	seed int64
	i    int
}

func (s *verifC21Src) Seed(seed int64) { s.seed, s.i = seed, 0 }
func (s *verifC21Src) Uint64() uint64 {
	b := []byte{byte(s.seed >> 56), byte(s.seed >> 48), byte(s.seed >> 40), byte(s.seed >> 32), byte(s.seed >> 24), byte(s.seed >> 16), byte(s.seed >> 8), byte(s.seed), byte(s.i)}
	s.i++
	return verifHash("rand", string(b))
}
func (s *verifC21Src) Int63() int64 { return int64(s.Uint64() >> 1) }

// md5 as an uninterpreted function of the written bytes (only the first 8 bytes of the sum are used as seed)
type verifC21MD5 struct{ data []byte }

func (h *verifC21MD5) Write(p []byte) (int, error) { h.data = append(h.data, p...); return len(p), nil }
func (h *verifC21MD5) Sum(b []byte) []byte {
	x, y := verifHash("md5hi", string(h.data)), verifHash("md5lo", string(h.data))
	for i := 0; i < 8; i++ {
		b = append(b, byte(x>>(56-8*uint(i))))
	}
	for i := 0; i < 8; i++ {
		b = append(b, byte(y>>(56-8*uint(i))))
	}
	return b
}
func (h *verifC21MD5) Reset()         { h.data = nil }
func (h *verifC21MD5) Size() int      { return 16 }
func (h *verifC21MD5) BlockSize() int { return 64 }

func verifC21NewMD5() hash.Hash { return &verifC21MD5{} }

func verifC21NewSource(seed int64) rand.Source { return &verifC21Src{seed: seed} }

func verifC21Set(h *ketamaHashring) []Endpoint { return h.Nodes() }

func verifC21Has(set []Endpoint, e Endpoint) bool {
	for _, x := range set {
		if x.Address == e.Address {
			return true
		}
	}
	return false
}

// VerifC21ShardThree: three nodes, default shard size only
func VerifC21ShardThree() { VerifC21Shard() }

// VerifC21Shard (C21): a tenant's shard is the same cached or not, has the configured size (per zone, or in
// total without zone awareness), holds distinct nodes, and every replica of the tenant's series lies inside it.
func VerifC21Shard() {
	n := verifIntRange("nodes", 1, verifParam("N", 3))
	zones := verifParam("Z", 2)
	eps := verifRingEndpoints(n, zones)
	rf := verifIntRange("rf", 1, verifParam("RF", 2))
	base, err := newKetamaHashring(eps, verifParam("SPN", 1), uint64(rf))
	if err != nil {
		return
	}
	verifRingDistinctSections(base)
	cfg := ShuffleShardingConfig{ShardSize: verifIntRange("shardSize", 1, n), ZoneAwarenessDisabled: verifIntRange("noZones", 0, 1) == 1}
	tenant := verifStrN("tenant", 2, "ab")
	switch verifIntRange("override", 0, 2*verifParam("OVERRIDES", 1)) {
	case 1:
		cfg.Overrides = []ShuffleShardingOverrideConfig{{ShardSize: verifIntRange("overrideSize", 1, n), Tenants: []string{"aa"}, TenantMatcherType: TenantMatcherTypeExact}}
	case 2:
		cfg.Overrides = []ShuffleShardingOverrideConfig{{ShardSize: verifIntRange("overrideSize", 1, n), Tenants: []string{"a*"}, TenantMatcherType: TenantMatcherGlob}}
	}
	ssh, err := newShuffleShardHashring(base, cfg, uint64(rf), prometheus.NewRegistry(), "verif")
	verifAssert(err == nil, "shuffle-ring-built")
	if err != nil {
		return
	}
	// expected size
	want := cfg.ShardSize
	if len(cfg.Overrides) > 0 {
		o := cfg.Overrides[0]
		if (o.TenantMatcherType == TenantMatcherTypeExact && tenant == "aa") || (o.TenantMatcherType == TenantMatcherGlob && tenant[0] == 'a') {
			want = o.ShardSize
			verifReach("override-applies")
		}
	}
	h1, err1 := ssh.getTenantShardCached(tenant)
	h2, err2 := ssh.getTenantShard(tenant)
	h3, err3 := ssh.getTenantShardCached(tenant)
	verifAssert((err1 == nil) == (err2 == nil) && (err1 == nil) == (err3 == nil), "same-outcome-cached-or-not")
	if err1 != nil {
		verifReach("shard-too-large")
		return
	}
	s1, s2, s3 := verifC21Set(h1), verifC21Set(h2), verifC21Set(h3)
	verifAssert(len(s1) == len(s2) && len(s1) == len(s3), "same-shard-size-cached-or-not")
	for _, e := range s1 {
		verifAssert(verifC21Has(s2, e), "same-nodes-uncached")
		verifAssert(verifC21Has(s3, e), "same-nodes-cached")
	}
	// distinct nodes
	for i := range s1 {
		for j := i + 1; j < len(s1); j++ {
			verifAssert(s1[i].Address != s1[j].Address, "shard-nodes-distinct")
		}
	}
	// size
	if cfg.ZoneAwarenessDisabled || zones == 0 {
		verifAssert(len(s1) == want, "shard-has-configured-total-size")
	} else {
		var cnt [4]int
		used := 0
		for _, e := range eps {
			for z := 1; z < 4; z++ {
				if e.AZ == verifRingAZ[z] {
					if cnt[z] == 0 {
						used++
					}
					cnt[z]++
				}
			}
		}
		per := (want + used - 1) / used
		for z := 1; z < 4; z++ {
			if cnt[z] == 0 {
				continue
			}
			in := 0
			for _, e := range s1 {
				if e.AZ == verifRingAZ[z] {
					in++
				}
			}
			verifAssert(in == per, "shard-has-configured-size-per-zone")
		}
		if used > 1 {
			verifReach("two-zones")
		}
	}
	// replicas inside the shard
	ts := verifRingSeries()
	for k := 0; k < rf; k++ {
		e, gerr := ssh.GetN(tenant, ts, uint64(k))
		if gerr != nil {
			verifReach("replica-error")
			continue
		}
		verifAssert(verifC21Has(s1, e), "replica-inside-shard")
	}
	verifReach("end")
}
