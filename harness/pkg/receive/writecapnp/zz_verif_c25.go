package writecapnp

import (
	"math"

	"github.com/prometheus/prometheus/model/histogram"

	"github.com/thanos-io/thanos/pkg/store/labelpb"
	"github.com/thanos-io/thanos/pkg/store/storepb/prompb"
)

func verifC25F(a, b float64) bool { return math.Float64bits(a) == math.Float64bits(b) }

func verifC25Labels(name string, n int) []labelpb.ZLabel {
	// label names are concrete and sorted (a < b); values are symbolic strings of length 0..1, so equal values
	// share a symbol, different ones do not, and the empty symbol occurs
	var out []labelpb.ZLabel
	for i := 0; i < n; i++ {
		out = append(out, labelpb.ZLabel{Name: [3]string{"a", "b", "c"}[i], Value: verifStr(verifName(name, i), 1, "xy")})
	}
	return out
}

func verifC25Histogram(name string) prompb.Histogram {
	h := prompb.Histogram{
		ResetHint:     prompb.Histogram_ResetHint(verifInt32(name + "_hint")),
		Sum:           verifFloat(name + "_sum"),
		Schema:        verifInt32(name + "_schema"),
		ZeroThreshold: verifFloat(name + "_zt"),
		Timestamp:     verifInt64(name + "_ts"),
	}
	verifAssume(h.ResetHint >= 0)
	verifAssume(h.ResetHint <= 3)
	isFloat := verifIntRange(name+"_float", 0, 1) == 1
	if verifParam("HSIMPLE", 0) == 1 {
		// scalars only (used where several series are combined)
		if isFloat {
			h.Count = &prompb.Histogram_CountFloat{CountFloat: verifFloat(name + "_countf")}
		} else {
			h.Count = &prompb.Histogram_CountInt{CountInt: verifUint64(name + "_count")}
		}
		return h
	}
	if isFloat {
		h.Count = &prompb.Histogram_CountFloat{CountFloat: verifFloat(name + "_countf")}
		h.ZeroCount = &prompb.Histogram_ZeroCountFloat{ZeroCountFloat: verifFloat(name + "_zcf")}
	} else {
		h.Count = &prompb.Histogram_CountInt{CountInt: verifUint64(name + "_count")}
		h.ZeroCount = &prompb.Histogram_ZeroCountInt{ZeroCountInt: verifUint64(name + "_zc")}
	}
	n1 := verifIntRange(name+"_pspans", 0, 1)
	for i := 0; i < n1; i++ {
		h.PositiveSpans = append(h.PositiveSpans, prompb.BucketSpan{Offset: verifInt32(verifName(name+"_poff", i)), Length: verifUint32(verifName(name+"_plen", i))})
	}
	n2 := verifIntRange(name+"_nspans", 0, 1)
	for i := 0; i < n2; i++ {
		h.NegativeSpans = append(h.NegativeSpans, prompb.BucketSpan{Offset: verifInt32(verifName(name+"_noff", i)), Length: verifUint32(verifName(name+"_nlen", i))})
	}
	nb := verifIntRange(name+"_pbuckets", 0, 2)
	mb := verifIntRange(name+"_nbuckets", 0, 1)
	for i := 0; i < nb; i++ {
		if isFloat {
			h.PositiveCounts = append(h.PositiveCounts, verifFloat(verifName(name+"_pc", i)))
		} else {
			h.PositiveDeltas = append(h.PositiveDeltas, verifInt64(verifName(name+"_pd", i)))
		}
	}
	for i := 0; i < mb; i++ {
		if isFloat {
			h.NegativeCounts = append(h.NegativeCounts, verifFloat(verifName(name+"_nc", i)))
		} else {
			h.NegativeDeltas = append(h.NegativeDeltas, verifInt64(verifName(name+"_nd", i)))
		}
	}
	if verifParam("CUSTOM", 0) == 1 && verifIntRange(name+"_custom", 0, 1) == 1 {
		h.CustomValues = []float64{verifFloat(name + "_cv")}
		verifReach("custom-values")
	}
	return h
}

func verifC25Spans(got []histogram.Span, want []histogram.Span) {
	verifAssert(len(got) == len(want), "histogram-span-count")
	for i := range got {
		if i < len(want) {
			verifAssert(got[i].Offset == want[i].Offset && got[i].Length == want[i].Length, "histogram-span")
		}
	}
}

// the decoded histogram must equal what the protobuf path (prompb.HistogramProtoToHistogram /
// FloatHistogramProtoToFloatHistogram, used when the same request arrives over gRPC) makes of the same input
func verifC25CheckHistogram(got HistogramSample, in prompb.Histogram) {
	verifAssert(got.Timestamp == in.Timestamp, "histogram-timestamp")
	if in.IsFloatHistogram() {
		want := prompb.FloatHistogramProtoToFloatHistogram(in)
		verifAssert(got.FloatHistogram != nil && got.Histogram == nil, "float-histogram-kind")
		if got.FloatHistogram == nil {
			return
		}
		g := got.FloatHistogram
		verifAssert(g.CounterResetHint == want.CounterResetHint && g.Schema == want.Schema, "histogram-hint-schema")
		verifAssert(verifC25F(g.ZeroThreshold, want.ZeroThreshold) && verifC25F(g.ZeroCount, want.ZeroCount) && verifC25F(g.Count, want.Count) && verifC25F(g.Sum, want.Sum), "histogram-scalars")
		verifC25Spans(g.PositiveSpans, want.PositiveSpans)
		verifC25Spans(g.NegativeSpans, want.NegativeSpans)
		verifAssert(len(g.PositiveBuckets) == len(want.PositiveBuckets) && len(g.NegativeBuckets) == len(want.NegativeBuckets), "histogram-bucket-count")
		for i := range g.PositiveBuckets {
			if i < len(want.PositiveBuckets) {
				verifAssert(verifC25F(g.PositiveBuckets[i], want.PositiveBuckets[i]), "histogram-bucket")
			}
		}
		for i := range g.NegativeBuckets {
			if i < len(want.NegativeBuckets) {
				verifAssert(verifC25F(g.NegativeBuckets[i], want.NegativeBuckets[i]), "histogram-bucket")
			}
		}
		verifKnown("C25-custom-bucket-values-not-carried", len(in.CustomValues) > 0)
		verifAssert(len(g.CustomValues) == len(want.CustomValues), "histogram-custom-values")
		verifReach("float-histogram")
		return
	}
	want := prompb.HistogramProtoToHistogram(in)
	verifAssert(got.Histogram != nil && got.FloatHistogram == nil, "int-histogram-kind")
	if got.Histogram == nil {
		return
	}
	g := got.Histogram
	verifAssert(g.CounterResetHint == want.CounterResetHint && g.Schema == want.Schema, "histogram-hint-schema")
	verifAssert(verifC25F(g.ZeroThreshold, want.ZeroThreshold) && g.ZeroCount == want.ZeroCount && g.Count == want.Count && verifC25F(g.Sum, want.Sum), "histogram-scalars")
	verifC25Spans(g.PositiveSpans, want.PositiveSpans)
	verifC25Spans(g.NegativeSpans, want.NegativeSpans)
	verifAssert(len(g.PositiveBuckets) == len(want.PositiveBuckets) && len(g.NegativeBuckets) == len(want.NegativeBuckets), "histogram-bucket-count")
	for i := range g.PositiveBuckets {
		if i < len(want.PositiveBuckets) {
			verifAssert(g.PositiveBuckets[i] == want.PositiveBuckets[i], "histogram-bucket")
		}
	}
	for i := range g.NegativeBuckets {
		if i < len(want.NegativeBuckets) {
			verifAssert(g.NegativeBuckets[i] == want.NegativeBuckets[i], "histogram-bucket")
		}
	}
	verifKnown("C25-custom-bucket-values-not-carried", len(in.CustomValues) > 0)
	verifAssert(len(g.CustomValues) == len(want.CustomValues), "histogram-custom-values")
	verifReach("int-histogram")
}

// VerifC25Reuse: two series decoded into one reused Series value (as CapNProtoWriter.Write does): the second
// must not inherit samples, histograms or exemplars of the first
func VerifC25Reuse() { VerifC25RoundTrip() }

// VerifC25Exemplars: one series with labels, samples and an exemplar
func VerifC25Exemplars() { VerifC25RoundTrip() }

// VerifC25Histograms: native histograms (integer and float), spans, buckets
func VerifC25Histograms() { VerifC25RoundTrip() }

// VerifC25RoundTrip (C25): a write request encoded for Cap'n Proto replication (multi-tenant Build, or the
// single-tenant form) and read back on the peer yields the same series: labels, float samples, native
// histograms and exemplars, including empty lists and shared symbols.
func VerifC25RoundTrip() {
	ns := verifIntRange("series", verifParam("MINSERIES", 0), verifParam("SERIES", 2))
	var req []prompb.TimeSeries
	for s := 0; s < ns; s++ {
		ts := prompb.TimeSeries{Labels: verifC25Labels(verifName("l", s), verifIntRange(verifName("labels", s), 0, verifParam("LABELS", 2)))}
		n3 := verifIntRange(verifName("samples", s), 0, verifParam("SAMPLES", 2))
		for i := 0; i < n3; i++ {
			ts.Samples = append(ts.Samples, prompb.Sample{Timestamp: verifInt64(verifName("t", s, i)), Value: verifFloat(verifName("x", s, i))})
		}
		n4 := verifIntRange(verifName("histograms", s), 0, verifParam("HISTOGRAMS", 1))
		for i := 0; i < n4; i++ {
			ts.Histograms = append(ts.Histograms, verifC25Histogram(verifName("h", s, i)))
		}
		n5 := verifIntRange(verifName("exemplars", s), 0, verifParam("EXEMPLARS", 1))
		for i := 0; i < n5; i++ {
			ts.Exemplars = append(ts.Exemplars, prompb.Exemplar{
				Labels:    verifC25Labels(verifName("el", s, i), verifIntRange(verifName("elabels", s, i), 0, 1)),
				Value:     verifFloat(verifName("ev", s, i)),
				Timestamp: verifInt64(verifName("et", s, i)),
			})
		}
		req = append(req, ts)
	}
	var r *Request
	if verifIntRange("singleTenantForm", 0, 1) == 1 {
		wr, err := Build("unused", nil)
		verifAssert(err == nil, "message-ok")
		if err != nil {
			return
		}
		verifAssert(BuildIntoSingleTenantWriteRequest(wr, "tenant", req) == nil, "build-ok")
		r, err = NewSingleTenantRequest(wr, "tenant")
		verifAssert(err == nil, "decode-ok")
		if err != nil {
			return
		}
		verifReach("single-tenant-form")
	} else {
		wr, err := Build("tenant", req)
		verifAssert(err == nil, "build-ok")
		if err != nil {
			return
		}
		data, err := wr.Data()
		verifAssert(err == nil && data.Len() == 1, "one-tenant-tuple")
		if err != nil || data.Len() != 1 {
			return
		}
		syms, err := wr.Symbols()
		verifAssert(err == nil, "symbols-ok")
		if err != nil {
			return
		}
		tn, err := data.At(0).Tenant()
		verifAssert(err == nil && tn == "tenant", "tenant-kept")
		r, err = NewRequest(data.At(0), syms, "tenant")
		verifAssert(err == nil, "decode-ok")
		if err != nil {
			return
		}
	}
	k := 0
	var ser Series
	for r.Next() {
		verifAssert(k < ns, "no-extra-series")
		if k >= ns {
			break
		}
		in := req[k]
		verifAssert(r.At(&ser) == nil, "at-ok")
		verifAssert(ser.Labels.Len() == len(in.Labels), "label-count-kept")
		for i, l := range in.Labels {
			if i < ser.Labels.Len() {
				verifAssert(ser.Labels[i].Name == l.Name && ser.Labels[i].Value == l.Value, "labels-kept")
			}
		}
		verifAssert(len(ser.Samples) == len(in.Samples), "sample-count-kept")
		for i := range ser.Samples {
			if i < len(in.Samples) {
				verifAssert(ser.Samples[i].Timestamp == in.Samples[i].Timestamp && verifC25F(ser.Samples[i].Value, in.Samples[i].Value), "sample-kept")
			}
		}
		verifAssert(len(ser.Histograms) == len(in.Histograms), "histogram-count-kept")
		for i := range ser.Histograms {
			if i < len(in.Histograms) {
				verifC25CheckHistogram(ser.Histograms[i], in.Histograms[i])
			}
		}
		verifAssert(len(ser.Exemplars) == len(in.Exemplars), "exemplar-count-kept")
		for i := range ser.Exemplars {
			if i < len(in.Exemplars) {
				e, w := ser.Exemplars[i], in.Exemplars[i]
				verifAssert(e.Ts == w.Timestamp && verifC25F(e.Value, w.Value), "exemplar-kept")
				verifAssert(e.Labels.Len() == len(w.Labels), "exemplar-label-count-kept")
				for j, l := range w.Labels {
					if j < e.Labels.Len() {
						verifAssert(e.Labels[j].Name == l.Name && e.Labels[j].Value == l.Value, "exemplar-labels-kept")
					}
				}
				verifReach("exemplar")
			}
		}
		k++
	}
	verifAssert(k == ns, "all-series-read")
	if ns == 2 {
		verifReach("two-series")
	}
	verifReach("end")
}
