package receive

import (
	"context"
	"net/http"
	"time"

	"github.com/go-kit/log"
	"github.com/pkg/errors"
	"github.com/prometheus/client_golang/prometheus"
	"google.golang.org/grpc/codes"
	"google.golang.org/grpc/status"

	"github.com/thanos-io/thanos/pkg/store/labelpb"
	"github.com/thanos-io/thanos/pkg/store/storepb"
	"github.com/thanos-io/thanos/pkg/store/storepb/prompb"
)

// ---- fake hashring: series s, replica n -> node (s+n) mod N ----

type verifC22Ring struct{ nodes int }

func (r *verifC22Ring) Close()            {}
func (r *verifC22Ring) Nodes() []Endpoint { return nil }
func (r *verifC22Ring) GetN(_ string, ts *prompb.TimeSeries, n uint64) (Endpoint, error) {
	s := int(ts.Labels[0].Value[1] - '0')
	a := verifRingAddr[(s+int(n))%r.nodes]
	return Endpoint{Address: a, CapNProtoAddress: a}, nil
}

// ---- fake peers: outcomes decided up front, responses delivered in an explored order ----

const (
	verifOK = iota
	verifConflict
	verifUnavailable
	verifOther
)

type verifC22Pending struct {
	resp writeResponse
	cb   func(error)
	err  error
}

type verifC22Peers struct {
	outcome  map[endpointReplica]int
	stored   map[endpointReplica][]int // successful writes: series ids per destination
	pending  []verifC22Pending
	expected int
	order    []int // delivery order (indices into pending), nil = explore
	name     string
}

func (p *verifC22Peers) close(Endpoint) error        { return nil }
func (p *verifC22Peers) markPeerUnavailable(Endpoint) {}
func (p *verifC22Peers) markPeerAvailable(Endpoint)   {}
func (p *verifC22Peers) reset()                       {}
func (p *verifC22Peers) Close() error                 { return nil }
func (p *verifC22Peers) getConnection(_ context.Context, e Endpoint) (WriteableStoreAsyncClient, error) {
	return &verifC22Client{p: p}, nil
}

type verifC22Client struct {
	storepb.WriteableStoreClient
	p *verifC22Peers
}

func (c *verifC22Client) TryRemoteWriteAsync(ctx context.Context, req *storepb.WriteRequest, er endpointReplica, ids []int, ch chan writeResponse, cb func(error)) bool {
	c.RemoteWriteAsync(ctx, req, er, ids, ch, cb)
	return true
}

func (c *verifC22Client) RemoteWriteAsync(_ context.Context, _ *storepb.WriteRequest, er endpointReplica, ids []int, ch chan writeResponse, cb func(error)) {
	p := c.p
	var err error
	switch p.outcome[er] {
	case verifOK:
		p.stored[er] = append([]int{}, ids...)
	case verifConflict:
		err = errors.Wrapf(status.Error(codes.AlreadyExists, "conflict"), "forwarding request to endpoint %v", er.endpoint)
	case verifUnavailable:
		err = errors.Wrapf(status.Error(codes.Unavailable, "unavailable"), "forwarding request to endpoint %v", er.endpoint)
	default:
		err = errors.Wrapf(errors.New("disk full"), "forwarding request to endpoint %v", er.endpoint)
	}
	p.pending = append(p.pending, verifC22Pending{resp: newWriteResponse(append([]int{}, ids...), err, er), cb: cb, err: err})
	if len(p.pending) == p.expected {
		// all replicas have answered: hand the responses over in an explored arrival order
		left := make([]int, len(p.pending))
		for i := range left {
			left[i] = i
		}
		for k := 0; len(left) > 0; k++ {
			c := 0
			if p.order == nil {
				c = verifIntRange(verifName(p.name+"arrival", k), 0, len(left)-1)
			}
			x := p.pending[left[c]]
			left = append(left[:c:c], left[c+1:]...)
			ch <- x.resp
			x.cb(x.err)
		}
	}
}

type verifC22Writer struct {
	header http.Header
	status int
}

func (w *verifC22Writer) Header() http.Header         { return w.header }
func (w *verifC22Writer) Write(b []byte) (int, error) { return len(b), nil }
func (w *verifC22Writer) WriteHeader(c int) {
	if w.status == 0 {
		w.status = c
	}
}

type verifC22NoLimit struct{}

func (verifC22NoLimit) AllowSizeBytes(string, int64) bool { return true }
func (verifC22NoLimit) AllowSeries(string, int64) bool    { return true }
func (verifC22NoLimit) AllowSamples(string, int64) bool   { return true }

func verifC22Handler(rf int, ring Hashring, peers peersContainer) *Handler {
	return &Handler{
		logger:          log.NewNopLogger(),
		options:         &Options{ReplicationFactor: uint64(rf), ForwardTimeout: time.Hour, ReplicaHeader: "THANOS-REPLICA"},
		hashring:        ring,
		peers:           peers,
		forwardRequests: prometheus.NewCounterVec(prometheus.CounterOpts{Name: "f"}, []string{"result"}),
		replications:    prometheus.NewCounterVec(prometheus.CounterOpts{Name: "r"}, []string{"result"}),
		writeSamplesTotal: prometheus.NewHistogramVec(prometheus.HistogramOpts{Name: "s"}, []string{"code", "tenant"}),
		writeTimeseriesTotal: prometheus.NewHistogramVec(prometheus.HistogramOpts{Name: "t"}, []string{"code", "tenant"}),
	}
}

func verifC22Request(nseries int) *prompb.WriteRequest {
	w := &prompb.WriteRequest{}
	for s := 0; s < nseries; s++ {
		w.Timeseries = append(w.Timeseries, prompb.TimeSeries{
			Labels:  []labelpb.ZLabel{{Name: "a", Value: "s" + string(rune('0'+s))}},
			Samples: []prompb.Sample{{Timestamp: 1, Value: 1}},
		})
	}
	return w
}

// verifC22Run performs one replicated write through the real HTTP handler path (handleV1HTTP ->
// handleRequest -> forward -> fanoutForward) and returns the HTTP status and the peers' record.
func verifC22Run(name string, rf, nseries int, outcome map[endpointReplica]int, order []int) (int, *verifC22Peers) {
	peers := &verifC22Peers{outcome: outcome, stored: map[endpointReplica][]int{}, name: name, order: order}
	// destinations: distinct (node, replica) pairs
	ring := &verifC22Ring{nodes: rf}
	dest := map[endpointReplica]bool{}
	req := verifC22Request(nseries)
	for s := range req.Timeseries {
		for n := 0; n < rf; n++ {
			e, _ := ring.GetN("", &req.Timeseries[s], uint64(n))
			dest[endpointReplica{endpoint: e, replica: uint64(n)}] = true
		}
	}
	peers.expected = len(dest)
	h := verifC22Handler(rf, ring, peers)
	w := &verifC22Writer{header: http.Header{}}
	r := &http.Request{Header: http.Header{}}
	_ = h.handleV1HTTP(context.Background(), w, r, req, log.NewNopLogger(), "t", verifC22NoLimit{})
	st := w.status
	if st == 0 {
		st = http.StatusOK
	}
	return st, peers
}

func verifC22Quorum(rf int) int {
	if rf == 2 {
		return 1
	}
	return rf/2 + 1
}

// VerifC22Quorum (C22, C23): acknowledged => every series stored on a quorum of its replicas; status mapping of
// failed writes; the status does not depend on the arrival order of the replica responses.
func VerifC22Quorum() {
	rf := verifIntRange("rf", 1, verifParam("RF", 3))
	nseries := verifIntRange("series", 1, verifParam("SERIES", 1))
	kinds := verifParam("KINDS", 3) // 3: success/conflict/unavailable; 4: also an unclassified error
	ring := &verifC22Ring{nodes: rf}
	req := verifC22Request(nseries)
	outcome := map[endpointReplica]int{}
	onlyKnown := true
	for s := range req.Timeseries {
		for n := 0; n < rf; n++ {
			e, _ := ring.GetN("", &req.Timeseries[s], uint64(n))
			er := endpointReplica{endpoint: e, replica: uint64(n)}
			if _, ok := outcome[er]; !ok {
				o := verifIntRange(verifName("outcome", s, n), 0, kinds-1)
				outcome[er] = o
				if o == verifOther {
					onlyKnown = false
				}
			}
		}
	}
	st, peers := verifC22Run("a_", rf, nseries, outcome, nil)
	quorum := verifC22Quorum(rf)
	failThreshold := rf - quorum + 1
	anyConflictDead := false
	allQuorum := true
	for s := range req.Timeseries {
		succ, conf := 0, 0
		for n := 0; n < rf; n++ {
			e, _ := ring.GetN("", &req.Timeseries[s], uint64(n))
			er := endpointReplica{endpoint: e, replica: uint64(n)}
			switch outcome[er] {
			case verifOK:
				// really stored there?
				for _, id := range peers.stored[er] {
					if id == s {
						succ++
					}
				}
			case verifConflict:
				conf++
			}
		}
		if succ < quorum {
			allQuorum = false
		}
		if conf >= failThreshold {
			anyConflictDead = true
		}
	}
	if st == http.StatusOK {
		verifAssert(allQuorum, "acknowledged-write-reached-quorum-for-every-series")
		verifReach("acknowledged")
	} else {
		verifAssert(!allQuorum || rf == 0, "request-that-reached-quorum-is-not-failed")
		if st == http.StatusConflict {
			verifAssert(anyConflictDead, "409-only-if-conflicts-alone-make-quorum-impossible")
			verifReach("conflict")
		}
		if !anyConflictDead && onlyKnown {
			verifAssert(st == http.StatusServiceUnavailable, "retryable-failure-is-503")
		}
		if onlyKnown {
			verifAssert(st != http.StatusInternalServerError, "no-500-for-conflicts-and-unavailable-replicas")
		}
		verifReach("failed")
	}
	// the same replica outcomes in a fixed arrival order give the same status
	st2, _ := verifC22Run("b_", rf, nseries, outcome, []int{})
	verifAssert(st2 == st, "status-independent-of-arrival-order")
	verifReach("end")
}
