package dedup

import (
	"math"

	"github.com/prometheus/prometheus/model/histogram"
	"github.com/prometheus/prometheus/model/labels"
	"github.com/prometheus/prometheus/storage"
	"github.com/prometheus/prometheus/tsdb/chunkenc"
	"github.com/prometheus/prometheus/util/annotations"
)

// verifIter is a slice-backed chunkenc.Iterator honouring the iterator contract:
// Next advances by one; Seek(t) moves forward to the first sample >= t and never moves back.
type verifIter struct {
	ts []int64
	vs []float64
	i  int // -1 before the first Next/Seek
}

func (it *verifIter) Next() chunkenc.ValueType {
	if it.i+1 >= len(it.ts) {
		it.i = len(it.ts)
		return chunkenc.ValNone
	}
	it.i++
	return chunkenc.ValFloat
}

func (it *verifIter) Seek(t int64) chunkenc.ValueType {
	if it.i < 0 {
		it.i = 0
	}
	for it.i < len(it.ts) {
		if it.ts[it.i] >= t {
			return chunkenc.ValFloat
		}
		it.i++
	}
	return chunkenc.ValNone
}

func (it *verifIter) At() (int64, float64) { return it.ts[it.i], it.vs[it.i] }
func (it *verifIter) AtHistogram(*histogram.Histogram) (int64, *histogram.Histogram) {
	panic("verifIter: no histograms")
}
func (it *verifIter) AtFloatHistogram(*histogram.FloatHistogram) (int64, *histogram.FloatHistogram) {
	panic("verifIter: no histograms")
}
func (it *verifIter) AtT() int64 { return it.ts[it.i] }
func (it *verifIter) Err() error { return nil }

type verifSeries struct {
	ts   []int64
	vs   []float64
	lset labels.Labels
}

func (s *verifSeries) Labels() labels.Labels { return s.lset }
func (s *verifSeries) Iterator(chunkenc.Iterator) chunkenc.Iterator {
	return &verifIter{ts: s.ts, vs: s.vs, i: -1}
}

// verifReplicas builds R replicas with path-concrete lengths and symbolic strictly increasing timestamps.
func verifReplicas(maxR, maxN int, counter bool) []storage.Series {
	lim := int64(1) << 40
	r := verifIntRange("replicas", 1, maxR)
	out := make([]storage.Series, r)
	for k := 0; k < r; k++ {
		lo := 1
		if k > 0 {
			lo = 0
		}
		n := verifIntRange(verifName("n", k), lo, maxN)
		s := &verifSeries{ts: make([]int64, n), vs: make([]float64, n)}
		for j := 0; j < n; j++ {
			t := verifInt64(verifName("t", k, j))
			verifAssume(-lim <= t)
			verifAssume(t <= lim)
			if j > 0 {
				verifAssume(s.ts[j-1] < t)
			}
			s.ts[j] = t
			v := verifFloat(verifName("v", k, j))
			if counter {
				verifAssume(v >= 0)
				verifAssume(v <= float64(1<<31))
				if j > 0 {
					verifAssume(s.vs[j-1] <= v)
				}
			}
			s.vs[j] = v
		}
		out[k] = s
	}
	return out
}

func verifHeld(reps []storage.Series, t int64, v float64) bool {
	found := false
	vb := math.Float64bits(v)
	for _, r := range reps {
		s := r.(*verifSeries)
		for j := range s.ts {
			found = verifAny(found, verifAll(s.ts[j] == t, math.Float64bits(s.vs[j]) == vb))
		}
	}
	return found
}

type verifSample struct {
	t int64
	v float64
}

func verifDrain(it chunkenc.Iterator, first chunkenc.ValueType, started bool, limit int) []verifSample {
	var out []verifSample
	vt := first
	if !started {
		vt = it.Next()
	}
	for vt != chunkenc.ValNone {
		t, v := it.At()
		out = append(out, verifSample{t, v})
		verifAssert(len(out) <= limit, "no-more-samples-than-input")
		if len(out) > limit {
			return out
		}
		vt = it.Next()
	}
	return out
}

func verifTotal(reps []storage.Series) int {
	n := 0
	for _, r := range reps {
		n += len(r.(*verifSeries).ts)
	}
	return n
}

// VerifC01Merge: H1 (strictly increasing, provenance) and H2 (single replica unchanged).
func VerifC01Merge() {
	reps := verifReplicas(verifParam("R", 2), verifParam("N", 3), false)
	it := newDedupSeries(labels.EmptyLabels(), reps, "").Iterator(nil)
	out := verifDrain(it, chunkenc.ValNone, false, verifTotal(reps))
	for i, s := range out {
		if i > 0 {
			verifAssert(out[i-1].t < s.t, "strictly-increasing")
		}
		verifAssert(verifHeld(reps, s.t, s.v), "provenance")
	}
	if len(reps) == 1 {
		s := reps[0].(*verifSeries)
		verifAssert(len(out) == len(s.ts), "single-replica-length")
		if len(out) == len(s.ts) {
			for i := range out {
				verifAssert(out[i].t == s.ts[i], "single-replica-t")
				verifAssert(math.Float64bits(out[i].v) == math.Float64bits(s.vs[i]), "single-replica-v")
			}
		}
		verifReach("single")
	}
	if len(out) > 1 {
		verifReach("two-out")
	}
	verifReach("end")
}

// VerifC01Identical: k bit-identical replicas come out unchanged.
func VerifC01Identical() {
	lim := int64(1) << 40
	n := verifIntRange("n", 1, verifParam("N", 3))
	r := verifIntRange("replicas", 2, verifParam("R", 3))
	ts := make([]int64, n)
	vs := make([]float64, n)
	for j := 0; j < n; j++ {
		t := verifInt64(verifName("t", j))
		verifAssume(-lim <= t)
		verifAssume(t <= lim)
		if j > 0 {
			verifAssume(ts[j-1] < t)
		}
		ts[j] = t
		vs[j] = verifFloat(verifName("v", j))
	}
	reps := make([]storage.Series, r)
	for k := range reps {
		reps[k] = &verifSeries{ts: ts, vs: vs}
	}
	it := newDedupSeries(labels.EmptyLabels(), reps, "").Iterator(nil)
	out := verifDrain(it, chunkenc.ValNone, false, n*r)
	verifAssert(len(out) == n, "identical-length")
	if len(out) == n {
		for i := range out {
			verifAssert(out[i].t == ts[i], "identical-t")
			verifAssert(math.Float64bits(out[i].v) == math.Float64bits(vs[i]), "identical-v")
		}
	}
	verifReach("end")
}

// VerifC01Seek: H3 - a reader that seeks first sees exactly the suffix of the full iteration.
func VerifC01Seek() {
	reps := verifReplicas(verifParam("R", 2), verifParam("N", 3), false)
	tot := verifTotal(reps)
	full := verifDrain(newDedupSeries(labels.EmptyLabels(), reps, "").Iterator(nil), chunkenc.ValNone, false, tot)
	x := verifInt64("x")
	lim := int64(1) << 40
	verifAssume(-lim <= x)
	verifAssume(x <= lim)
	it2 := newDedupSeries(labels.EmptyLabels(), reps, "").Iterator(nil)
	vt := it2.Seek(x)
	got := verifDrain(it2, vt, true, tot)
	idx := 0
	for _, s := range full {
		if s.t >= x {
			verifAssert(idx < len(got), "seek-suffix-missing-sample")
			if idx < len(got) {
				verifAssert(got[idx].t == s.t, "seek-suffix-t")
				verifAssert(math.Float64bits(got[idx].v) == math.Float64bits(s.v), "seek-suffix-v")
			}
			idx++
		}
	}
	verifAssert(idx == len(got), "seek-suffix-extra-sample")
	if idx > 0 {
		verifReach("nonempty-suffix")
	}
	verifReach("end")
}

// VerifC01SeekAfterNext: as VerifC01Seek, but the reader has called Next once before seeking
// (the order the dedup iterator is written for).
func VerifC01SeekAfterNext() {
	reps := verifReplicas(verifParam("R", 2), verifParam("N", 3), false)
	tot := verifTotal(reps)
	full := verifDrain(newDedupSeries(labels.EmptyLabels(), reps, "").Iterator(nil), chunkenc.ValNone, false, tot)
	x := verifInt64("x")
	lim := int64(1) << 40
	verifAssume(-lim <= x)
	verifAssume(x <= lim)
	it2 := newDedupSeries(labels.EmptyLabels(), reps, "").Iterator(nil)
	if it2.Next() == chunkenc.ValNone {
		verifAssert(len(full) == 0, "next-none-but-full-nonempty")
		return
	}
	verifAssume(len(full) > 0)
	verifAssume(x >= full[0].t)
	vt := it2.Seek(x)
	got := verifDrain(it2, vt, true, tot)
	idx := 0
	for _, s := range full {
		if s.t >= x {
			verifAssert(idx < len(got), "seek-suffix-missing-sample")
			if idx < len(got) {
				verifAssert(got[idx].t == s.t, "seek-suffix-t")
				verifAssert(math.Float64bits(got[idx].v) == math.Float64bits(s.v), "seek-suffix-v")
			}
			idx++
		}
	}
	verifAssert(idx == len(got), "seek-suffix-extra-sample")
	if idx > 0 {
		verifReach("nonempty-suffix")
	}
	verifReach("end")
}

// verifSet is a storage.SeriesSet over a list of series (sorted by labels, replicas adjacent).
type verifSet struct {
	series []storage.Series
	i      int
}

func (s *verifSet) Next() bool                        { s.i++; return s.i < len(s.series) }
func (s *verifSet) At() storage.Series                { return s.series[s.i] }
func (s *verifSet) Err() error                        { return nil }
func (s *verifSet) Warnings() annotations.Annotations { return nil }

// VerifC01SeriesSet: the observation point named by the property - the iterators of the series returned by
// dedup.NewSeriesSet(...).At(), iterated after the set has been advanced (clients may keep the series).
func VerifC01SeriesSet() {
	lim := int64(1) << 40
	groups := verifIntRange("groups", 1, verifParam("G", 2))
	var all []storage.Series
	var byGroup [][]storage.Series
	names := [3]string{"1", "2", "3"}
	for g := 0; g < groups; g++ {
		r := verifIntRange(verifName("r", g), 1, verifParam("R", 2))
		var grp []storage.Series
		for k := 0; k < r; k++ {
			n := verifIntRange(verifName("n", g, k), 1, verifParam("N", 2))
			s := &verifSeries{ts: make([]int64, n), vs: make([]float64, n), lset: labels.FromStrings("a", names[g])}
			for j := 0; j < n; j++ {
				t := verifInt64(verifName("t", g, k, j))
				verifAssume(-lim <= t)
				verifAssume(t <= lim)
				if j > 0 {
					verifAssume(s.ts[j-1] < t)
				}
				s.ts[j] = t
				s.vs[j] = verifFloat(verifName("v", g, k, j))
			}
			grp = append(grp, s)
			all = append(all, s)
		}
		byGroup = append(byGroup, grp)
	}
	set := NewSeriesSet(&verifSet{series: all, i: -1}, "", AlgorithmPenalty)
	var kept []storage.Series
	for set.Next() {
		kept = append(kept, set.At())
		verifAssert(len(kept) <= groups, "one-series-per-label-set")
		if len(kept) > groups {
			return
		}
	}
	verifAssert(len(kept) == groups, "all-label-sets-returned")
	if len(kept) != groups {
		return
	}
	for g, s := range kept {
		verifAssert(labels.Equal(s.Labels(), labels.FromStrings("a", names[g])), "series-labels")
		out := verifDrain(s.Iterator(nil), chunkenc.ValNone, false, verifTotal(byGroup[g]))
		for i, smp := range out {
			if i > 0 {
				verifAssert(out[i-1].t < smp.t, "strictly-increasing")
			}
			verifAssert(verifHeld(byGroup[g], smp.t, smp.v), "provenance-own-replicas")
		}
		verifAssert(len(out) > 0, "nonempty-series-yields-samples")
	}
	if groups > 1 {
		verifReach("two-groups")
	}
	verifReach("end")
}
