package dedup

import (
	"github.com/prometheus/prometheus/model/labels"
	"github.com/prometheus/prometheus/storage"
	"github.com/prometheus/prometheus/tsdb/chunkenc"
	"github.com/prometheus/prometheus/tsdb/chunks"

	"github.com/thanos-io/thanos/pkg/compact/downsample"
)

// verifC40Split is the chunk cut size of storage.NewSeriesToChunkEncoder: 120 in the real code.
// In the engine the encoder is replaced by verifC40Encoder which cuts every K samples (K small, any);
// natively the real encoder runs and every model sample is inflated to 120/K real samples, so the real
// cut points fall exactly where the model's do.
var verifC40K = 2

type verifC40EncSeries struct{ s storage.Series }

func (e *verifC40EncSeries) Labels() labels.Labels { return e.s.Labels() }
func (e *verifC40EncSeries) Iterator(chunks.Iterator) chunks.Iterator {
	var out []chunks.Meta
	var cur *chunkenc.XORChunk
	var app chunkenc.Appender
	var mint, maxt int64
	n := 0
	it := e.s.Iterator(nil)
	for it.Next() != chunkenc.ValNone {
		if cur == nil || n >= verifC40K {
			if cur != nil {
				out = append(out, chunks.Meta{MinTime: mint, MaxTime: maxt, Chunk: cur})
			}
			cur = chunkenc.NewXORChunk()
			app, _ = cur.Appender()
			n = 0
		}
		t, v := it.At()
		app.Append(t, v)
		if n == 0 {
			mint = t
		}
		maxt = t
		n++
	}
	if cur != nil {
		out = append(out, chunks.Meta{MinTime: mint, MaxTime: maxt, Chunk: cur})
	}
	return storage.NewListChunkSeriesIterator(out...)
}

func verifC40Encoder(s storage.Series) storage.ChunkSeries { return &verifC40EncSeries{s: s} }

type verifC40Series struct{ chks []chunks.Meta }

func (s *verifC40Series) Labels() labels.Labels { return labels.EmptyLabels() }
func (s *verifC40Series) Iterator(chunks.Iterator) chunks.Iterator {
	return storage.NewListChunkSeriesIterator(s.chks...)
}

// verifC40Chunk builds one aggregate chunk with all five aggregates present at the given model timestamps.
func verifC40Chunk(name string, ts []int64, f int64, lo, hi float64) chunks.Meta {
	var cs [5]chunkenc.Chunk
	for a := 0; a < 5; a++ {
		c := chunkenc.NewXORChunk()
		app, _ := c.Appender()
		for i, t := range ts {
			v := verifFloat(verifName(name, a, i))
			verifAssume(v >= lo)
			verifAssume(v <= hi)
			for j := int64(0); j < f; j++ {
				app.Append(t*f-(f-1)+j, v)
			}
		}
		cs[a] = c
	}
	return chunks.Meta{MinTime: ts[0]*f - (f - 1), MaxTime: ts[len(ts)-1] * f, Chunk: downsample.EncodeAggrChunk(cs)}
}

func verifC40Times(name string, n int, after int64) []int64 {
	ts := make([]int64, n)
	last := after
	for i := range ts {
		t := verifInt64(verifName(name, i))
		verifAssume(t > last)
		verifAssume(t <= 1<<30)
		ts[i] = t
		last = t
	}
	return ts
}

func verifC40Read(c chunkenc.Chunk, at downsample.AggrType) ([]int64, bool) {
	x, err := c.(*downsample.AggrChunk).Get(at)
	if err != nil {
		return nil, false
	}
	var ts []int64
	it := x.Iterator(nil)
	for it.Next() != chunkenc.ValNone {
		t, _ := it.At()
		ts = append(ts, t)
	}
	return ts, true
}

// VerifC40Merge: merged downsampled chunks - every aggregate has a sample at each timestamp where the merged
// count aggregate has one.
func VerifC40Merge() {
	verifXORReset()
	verifC40K = verifIntRange("K", 1, verifParam("KMAX", 2))
	f := int64(1)
	if verifNative() {
		f = int64(120 / verifC40K)
	}
	// series A: 1..2 chunks, series B: 1 chunk overlapping A's first chunk
	na := verifIntRange("chunksA", 1, verifParam("CA", 2))
	var a []chunks.Meta
	last := int64(-(1 << 30))
	for c := 0; c < na; c++ {
		ts := verifC40Times(verifName("ta", c), verifIntRange(verifName("na", c), 1, verifParam("W", 2)), last)
		a = append(a, verifC40Chunk(verifName("va", c), ts, f, 0, 500))
		last = ts[len(ts)-1]
	}
	tb := verifC40Times("tb", verifIntRange("nb", 1, verifParam("W", 2)), -(1 << 30))
	b := []chunks.Meta{verifC40Chunk("vb", tb, f, 501, 1000)}
	// overlap with A's first chunk (otherwise nothing is merged)
	verifAssume(b[0].MinTime <= a[0].MaxTime)
	verifAssume(a[0].MinTime <= b[0].MaxTime)
	merged := NewChunkSeriesMerger()(&verifC40Series{a}, &verifC40Series{b})
	it := merged.Iterator(nil)
	outChunks := 0
	for it.Next() {
		m := it.At()
		outChunks++
		cnt, ok := verifC40Read(m.Chunk, downsample.AggrCount)
		verifAssert(ok, "count-aggregate-present")
		for at := downsample.AggrSum; at <= downsample.AggrCounter; at++ {
			ts, _ := verifC40Read(m.Chunk, at) // an absent aggregate has no samples at all
			for _, t := range cnt {
				found := false
				for _, x := range ts {
					found = verifAny(found, x == t)
				}
				verifAssert(found, "aggregate-has-sample-at-every-count-timestamp")
			}
		}
		verifAssert(outChunks <= 8, "bounded-output")
		if outChunks > 8 {
			return
		}
	}
	verifAssert(it.Err() == nil, "no-merge-error")
	if outChunks > 1 {
		verifReach("two-output-chunks")
	}
	verifReach("end")
}
