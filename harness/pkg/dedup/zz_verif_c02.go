package dedup

import (
	"github.com/prometheus/prometheus/model/labels"
	"github.com/prometheus/prometheus/tsdb/chunkenc"
)

// VerifC02Counter: replicas whose values never decrease give a deduplicated series that never decreases
// (query function "rate": counterErrAdjustSeriesIterator).
func VerifC02Counter() {
	reps := verifReplicas(verifParam("R", 2), verifParam("N", 3), true)
	fn := [4]string{"rate", "irate", "increase", "resets"}[verifIntRange("fn", 0, verifParam("FN", 0))]
	it := newDedupSeries(labels.EmptyLabels(), reps, fn).Iterator(nil)
	out := verifDrain(it, chunkenc.ValNone, false, verifTotal(reps))
	for i := range out {
		if i > 0 {
			verifAssert(out[i-1].v <= out[i].v, "counter-never-decreases")
			verifAssert(out[i-1].t < out[i].t, "strictly-increasing")
		}
	}
	if len(out) > 2 {
		verifReach("three-out")
	}
	verifReach("end")
}

// VerifC02CounterSeek: same, for a reader that seeks first.
func VerifC02CounterSeek() {
	reps := verifReplicas(verifParam("R", 2), verifParam("N", 3), true)
	it := newDedupSeries(labels.EmptyLabels(), reps, "rate").Iterator(nil)
	x := verifInt64("x")
	lim := int64(1) << 40
	verifAssume(-lim <= x)
	verifAssume(x <= lim)
	vt := it.Seek(x)
	out := verifDrain(it, vt, true, verifTotal(reps))
	for i := range out {
		if i > 0 {
			verifAssert(out[i-1].v <= out[i].v, "counter-never-decreases")
		}
	}
	verifReach("end")
}
