package strutil

// Engine self-test canaries: assertions named hold-* must be discharged, viol-* must be violated
// (and reproduced natively). Run in both bit-vector and int printing modes.
func VerifSelfArith() {
	x := verifInt64("x")
	y := verifInt64("y")
	a := x
	if a < 0 {
		a = -a
	}
	verifAssert(a >= 0, "viol-abs-minint")
	if x != 0 {
		verifAssert(x*3 != 0, "hold-mul3-nonzero")
		verifAssert(x*2 != 0, "viol-mul2-wraps")
	}
	verifAssert(x/7*7+x%7 == x, "hold-divmod")
	if x >= 0 {
		verifAssert(x>>3 == x/8, "hold-shr-pos")
	} else {
		verifAssert(x>>3 == x/8, "viol-shr-neg")
		verifAssert(x%5 <= 0, "hold-rem-sign")
	}
	ux, uy := uint64(x), uint64(y)
	if x < 0 {
		if y >= 0 {
			verifAssert(ux > uy, "hold-unsigned-order")
		}
	}
	verifAssert(ux/3 <= ux, "hold-udiv")
	verifAssert(x+y-y == x, "hold-add-sub")
	if x > 0 {
		if y > 0 {
			verifAssert(x+y > 0, "viol-add-overflow")
		}
	}
	verifAssert(byte(x) == byte(x&0xff), "hold-byte")
	verifAssert(int64(int32(x)) == x, "viol-trunc32")
	verifAssert(uint64(uint32(ux>>32))<<32|uint64(uint32(ux)) == ux, "hold-split-join")
	verifAssert((x^y)^y == x, "hold-xor")
	verifAssert(x&y <= x|y || x < 0 || y < 0, "hold-and-or")
	s := uint(y) % 70
	verifAssert(ux<<s>>s <= ux, "hold-symshift")
	verifReach("end")
}
