package strutil

import "time"

func VerifSelfWrapMul() {
	x := verifInt64("x")
	verifAssume(x >= -(1 << 53))
	verifAssume(x <= 1<<53)
	y := time.Duration(x) * time.Millisecond
	if x < 0 {
		verifAssert(y <= time.Hour, "viol-mul-wraps-positive")
	}
	verifReach("end")
}
