package queryfrontend

import (
	"time"
)

var verifC41Steps = [6]int64{1, 2, 3, 5, 7, 10}
var verifC41Intervals = [3]int64{4, 6, 10}

func verifC41EvalAt(query string, start, end int64) (string, error) { return query, nil }

// VerifC41Split: C41 — every evaluation timestamp of a range query is evaluated by exactly one sub-request.
func VerifC41Split() {
	step := verifC41Steps[verifIntRange("stepIdx", 0, verifParam("S", 3))]
	interval := verifC41Intervals[verifIntRange("intervalIdx", 0, verifParam("I", 1))]
	start := verifInt64("start")
	end := verifInt64("end")
	verifAssume(0 <= start)
	verifAssume(start <= end)
	verifAssume(end < 1<<40)
	verifAssume(end-start <= int64(verifParam("SPAN", 2))*interval)

	r := &ThanosQueryRangeRequest{Start: start, End: end, Step: step, Query: "up"}
	reqs, err := splitQuery(r, time.Duration(interval)*time.Millisecond)
	verifAssert(err == nil, "split-no-error")
	if err != nil {
		return
	}
	k := verifInt64("k")
	verifAssume(0 <= k)
	verifAssume(k < 1<<40)
	t := start + k*step
	verifAssume(t <= end)

	count := 0
	for _, q := range reqs {
		s, e := q.GetStart(), q.GetEnd()
		verifAssert(s >= start, "sub-start-inside")
		verifAssert(e <= end, "sub-end-inside")
		verifAssert(s <= e, "sub-nonempty")
		verifAssert((s-start)%step == 0, "sub-start-step-aligned")
		verifAssert(q.GetStep() == step, "sub-step-kept")
		if s <= t {
			if t <= e {
				if (t-s)%step == 0 {
					count++
				}
			}
		}
	}
	verifAssert(count == 1, "timestamp-evaluated-exactly-once")
	if len(reqs) > 1 {
		verifReach("split-into-several")
	}
	verifReach("end")
}

// VerifC41LabelsSplit: label/series requests are split into ranges that together cover [start,end].
func VerifC41LabelsSplit() {
	interval := verifC41Intervals[verifIntRange("intervalIdx", 0, verifParam("I", 1))]
	start := verifInt64("start")
	end := verifInt64("end")
	verifAssume(0 <= start)
	verifAssume(start < end)
	verifAssume(end < 1<<40)
	verifAssume(end-start <= int64(verifParam("SPAN", 2))*interval)
	kind := verifIntRange("kind", 0, 1)
	var reqs []interface {
		GetStart() int64
		GetEnd() int64
	}
	if kind == 0 {
		r := &ThanosLabelsRequest{Start: start, End: end}
		out, err := splitQuery(r, time.Duration(interval)*time.Millisecond)
		verifAssert(err == nil, "split-no-error")
		for _, q := range out {
			reqs = append(reqs, q)
		}
	} else {
		r := &ThanosSeriesRequest{Start: start, End: end}
		out, err := splitQuery(r, time.Duration(interval)*time.Millisecond)
		verifAssert(err == nil, "split-no-error")
		for _, q := range out {
			reqs = append(reqs, q)
		}
	}
	t := verifInt64("t")
	verifAssume(start <= t)
	verifAssume(t <= end)
	covered := false
	for _, q := range reqs {
		verifAssert(q.GetStart() >= start, "sub-start-inside")
		verifAssert(q.GetEnd() <= end, "sub-end-inside")
		if q.GetStart() <= t {
			if t <= q.GetEnd() {
				covered = true
			}
		}
	}
	verifAssert(covered, "instant-covered")
	verifReach("end")
}
