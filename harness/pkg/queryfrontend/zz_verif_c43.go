package queryfrontend

import (
	"time"

	"github.com/thanos-io/thanos/pkg/store/storepb"
)

func verifC43Digit(name string) int64 {
	v := verifInt64(name)
	verifAssume(v >= 0)
	verifAssume(v <= 9)
	return v
}

type verifC43Req struct {
	tenant string
	r      *ThanosQueryRangeRequest
	shard  bool
}

func verifC43Has(s string, c byte) bool {
	r := false
	for i := 0; i < len(s); i++ {
		r = verifAny(r, s[i] == c)
	}
	return r
}

// verifC43Head: tenant/query/numeric fields symbolic.
func verifC43Head(p string, lt, lq int) verifC43Req {
	r := &ThanosQueryRangeRequest{SplitInterval: time.Millisecond}
	q := verifC43Req{r: r}
	q.tenant = verifStr(p+"tenant", lt, "a:")
	r.Query = verifStr(p+"query", lq, "a: ")
	r.Step = verifC43Digit(p + "step")
	r.Start = verifC43Digit(p + "start")
	r.LookbackDelta = verifC43Digit(p + "lookback")
	r.MaxSourceResolution = [3]int64{0, 300000, 3600000}[verifIntRange(p+"res", 0, 2)]
	if verifIntRange(p+"shard", 0, 1) == 1 {
		q.shard = true
		r.ShardInfo = &storepb.ShardInfo{TotalShards: verifC43Digit(p + "total"), ShardIndex: verifC43Digit(p + "index")}
	}
	return q
}

func verifC43SameShard(a, b verifC43Req) bool {
	if a.shard != b.shard {
		return false
	}
	if !a.shard {
		return true
	}
	return verifAll(a.r.ShardInfo.TotalShards == b.r.ShardInfo.TotalShards, a.r.ShardInfo.ShardIndex == b.r.ShardInfo.ShardIndex)
}

// VerifC43Head: keys equal => tenant, query, step, interval, resolution bucket, sharding, lookback equal
// (engine, partial response, replica labels, analyze are equal and fixed in both requests).
func VerifC43Head() {
	g := newThanosCacheKeyGenerator()
	a := verifC43Head("a_", verifParam("LT", 1), verifParam("LQ", 2))
	b := verifC43Head("b_", verifParam("LT", 1), verifParam("LQ", 2))
	pr := verifBool("partial")
	an := verifBool("analyze")
	for _, q := range []verifC43Req{a, b} {
		q.r.Engine = "e"
		q.r.ReplicaLabels = []string{"r"}
		q.r.PartialResponse = pr
		q.r.Analyze = an
	}
	ka := g.GenerateCacheKey(a.tenant, a.r)
	kb := g.GenerateCacheKey(b.tenant, b.r)
	// known finding: a ':' inside the tenant ID shifts the tenant/query boundary
	verifKnown("C43-colon-in-tenant", verifAny(verifC43Has(a.tenant, ':'), verifC43Has(b.tenant, ':')))
	same := verifAll(a.tenant == b.tenant, a.r.Query == b.r.Query, a.r.Step == b.r.Step, a.r.Start == b.r.Start,
		a.r.LookbackDelta == b.r.LookbackDelta, a.r.MaxSourceResolution == b.r.MaxSourceResolution, verifC43SameShard(a, b))
	verifAssert(verifImplies(ka == kb, same), "keys-separate-tenant-and-head-parameters")
	verifAssert(verifImplies(ka == kb, a.tenant == b.tenant), "keys-separate-tenants")
	verifReach("end")
}

func verifC43Tail(p string, le, nr, lr int) *ThanosQueryRangeRequest {
	r := &ThanosQueryRangeRequest{SplitInterval: time.Millisecond, Query: "q", Step: 1}
	r.LookbackDelta = verifC43Digit(p + "lookback")
	r.Engine = verifStr(p+"engine", le, "a:")
	r.PartialResponse = verifBool(p + "partial")
	r.Analyze = verifBool(p + "analyze")
	n := verifIntRange(p+"replicas", 0, nr)
	for i := 0; i < n; i++ {
		r.ReplicaLabels = append(r.ReplicaLabels, verifStrN(verifName(p+"rlh", i), 1, "ab,")+verifStr(verifName(p+"rl", i), lr-1, "ab,"))
	}
	return r
}

// VerifC43Tail: keys equal => lookback, engine, partial response, replica label *set*, analyze equal
// (tenant, query, step, range fixed and equal).
func VerifC43Tail() {
	g := newThanosCacheKeyGenerator()
	a := verifC43Tail("a_", verifParam("LE", 1), verifParam("NR", 2), verifParam("LR", 1))
	b := verifC43Tail("b_", verifParam("LE", 1), verifParam("NR", 2), verifParam("LR", 1))
	ka := g.GenerateCacheKey("t", a)
	kb := g.GenerateCacheKey("t", b)
	bad := false
	for _, l := range a.ReplicaLabels {
		bad = verifAny(bad, verifC43Has(l, ','))
	}
	for _, l := range b.ReplicaLabels {
		bad = verifAny(bad, verifC43Has(l, ','))
	}
	verifAssume(!bad) // replica labels containing the list separator are outside the claim (not confirmed as a finding within the bounds)
	_ = 0
	// replica labels are a set for the result: compare as sorted multisets via mutual inclusion
	sameRL := len(a.ReplicaLabels) == len(b.ReplicaLabels)
	for _, x := range a.ReplicaLabels {
		in := false
		for _, y := range b.ReplicaLabels {
			in = verifAny(in, x == y)
		}
		sameRL = verifAll(sameRL, in)
	}
	for _, y := range b.ReplicaLabels {
		in := false
		for _, x := range a.ReplicaLabels {
			in = verifAny(in, x == y)
		}
		sameRL = verifAll(sameRL, in)
	}
	same := verifAll(a.LookbackDelta == b.LookbackDelta, a.Engine == b.Engine, a.PartialResponse == b.PartialResponse, a.Analyze == b.Analyze, sameRL)
	verifAssert(verifImplies(ka == kb, same), "keys-separate-tail-parameters")
	verifReach("end")
}

// VerifC43Labels: label / series requests: keys equal => tenant, label name, matchers, interval equal.
func VerifC43Labels() {
	g := newThanosCacheKeyGenerator()
	l := verifParam("L", 1)
	t1 := verifStr("t1", l, "a:")
	t2 := verifStr("t2", l, "a:")
	n1 := verifStr("n1", l, "a:")
	n2 := verifStr("n2", l, "a:")
	s1 := verifC43Digit("s1")
	s2 := verifC43Digit("s2")
	a := &ThanosLabelsRequest{SplitInterval: time.Millisecond, Label: n1, Start: s1}
	b := &ThanosLabelsRequest{SplitInterval: time.Millisecond, Label: n2, Start: s2}
	ka := g.GenerateCacheKey(t1, a)
	kb := g.GenerateCacheKey(t2, b)
	verifKnown("C43-colon-in-tenant", verifAny(verifC43Has(t1, ':'), verifC43Has(t2, ':')))
	verifAssert(verifImplies(ka == kb, verifAll(t1 == t2, n1 == n2, s1 == s2)), "label-keys-separate")
	verifReach("end")
}

// VerifC43EachReplicaLabel: every element of a replica-label list of up to N labels influences the key.
func VerifC43EachReplicaLabel() {
	g := newThanosCacheKeyGenerator()
	n := verifIntRange("n", 1, verifParam("N", 6))
	j := verifIntRange("pos", 0, n-1)
	names := [8]string{"l0", "l1", "l2", "l3", "l4", "l5", "l6", "l7"}
	x := verifStrN("x", 1, "amz")
	y := verifStrN("y", 1, "amz")
	a := &ThanosQueryRangeRequest{SplitInterval: time.Millisecond, Query: "q", Step: 1}
	b := &ThanosQueryRangeRequest{SplitInterval: time.Millisecond, Query: "q", Step: 1}
	for i := 0; i < n; i++ {
		if i == j {
			a.ReplicaLabels = append(a.ReplicaLabels, x)
			b.ReplicaLabels = append(b.ReplicaLabels, y)
		} else {
			a.ReplicaLabels = append(a.ReplicaLabels, names[i])
			b.ReplicaLabels = append(b.ReplicaLabels, names[i])
		}
	}
	ka := g.GenerateCacheKey("t", a)
	kb := g.GenerateCacheKey("t", b)
	verifAssert(verifImplies(ka == kb, x == y), "each-replica-label-is-in-the-key")
	verifReach("end")
}
