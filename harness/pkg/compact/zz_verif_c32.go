package compact

import (
	"context"
	"time"

	"github.com/go-kit/log"
	"github.com/prometheus/client_golang/prometheus"

	"github.com/oklog/ulid/v2"

	"github.com/thanos-io/thanos/pkg/block"
	"github.com/thanos-io/thanos/pkg/block/metadata"
)

func verifCounter() prometheus.Counter { return prometheus.NewCounter(prometheus.CounterOpts{Name: "verif"}) }

func verifJSONMarshal(v any) ([]byte, error) { return []byte("{}"), nil }

var verifC32Retention = [3]time.Duration{0, time.Hour, 36 * time.Hour}

func verifMs(t time.Time) int64 { return t.Unix()*1000 + int64(t.Nanosecond())/1000000 }

// VerifC32Retention: a block is marked for deletion only when its newest sample (MaxTime-1 ms, MaxTime being
// exclusive) is older than the retention of its resolution.
func VerifC32Retention() {
	id := ulid.ULID{15: 1}
	m := &metadata.Meta{}
	m.ULID = id
	res := [3]int64{0, 300000, 3600000}[verifIntRange("res", 0, 2)]
	m.Thanos.Downsample.Resolution = res
	ret := map[ResolutionLevel]time.Duration{
		ResolutionLevelRaw: verifC32Retention[verifIntRange("retRaw", 0, 2)],
		ResolutionLevel5m:  verifC32Retention[verifIntRange("ret5m", 0, 2)],
		ResolutionLevel1h:  verifC32Retention[verifIntRange("ret1h", 0, 2)],
	}
	t0 := time.Now()
	// MaxTime relative to "now" (whole seconds) plus a millisecond part, so that a counterexample replays
	// against the real clock
	off := verifInt64("maxTimeOffsetSec")
	// any distance up to 2^42 s (about 139000 years) into the past or the future
	verifAssume(off >= -(1 << 42))
	verifAssume(off <= 1<<42)
	msPart := verifInt64("maxTimeMsPart")
	verifAssume(msPart >= 0)
	verifAssume(msPart <= 999)
	maxT := (t0.Unix()+off)*1000 + msPart
	m.MaxTime = maxT
	m.MinTime = maxT - 7200000
	bkt := &verifBucket{}
	err := ApplyRetentionPolicyByResolution(context.Background(), log.NewNopLogger(), bkt, map[ulid.ULID]*metadata.Meta{id: m}, ret, verifCounter())
	verifAssert(err == nil, "retention-no-error")
	t1 := time.Now() // the decision was taken at some instant in [t0, t1]: if the block was old enough then, it is at t1
	verifAssume(t1.Sub(t0) < time.Second) // the call takes less than a second (no clock jumps)
	marked := len(bkt.uploads) > 0
	r := ret[ResolutionLevel(res)]
	if marked {
		verifAssert(r != 0, "no-retention-configured-means-never-marked")
		tref := t0
		if verifNative() {
			tref = t1
		}
		age := verifMs(tref) - (maxT - 1)
		verifAssert(age > r.Milliseconds(), "marked-only-when-newest-sample-older-than-retention")
		verifAssert(len(bkt.uploads) == 1 && bkt.uploads[0] == id.String()+"/deletion-mark.json", "only-the-deletion-mark-is-written")
		verifReach("marked")
	} else {
		verifReach("kept")
	}
	verifAssert(len(bkt.deleted) == 0, "retention-deletes-nothing")
}

// VerifC32Cleaner: the cleaner removes only blocks whose deletion mark is older than the delete delay.
func VerifC32Cleaner() {
	n := verifIntRange("marks", 1, verifParam("MARKS", 2))
	bkt := &verifBucket{}
	marks := map[ulid.ULID]*metadata.DeletionMark{}
	var ids []ulid.ULID
	var times []int64
	now := time.Now()
	for i := 0; i < n; i++ {
		id := ulid.ULID{15: byte(i + 1)}
		dtOff := verifInt64(verifName("deletionTimeOffsetSec", i))
		verifAssume(dtOff >= -400000)
		verifAssume(dtOff <= 1000)
		dt := now.Unix() + dtOff
		marks[id] = &metadata.DeletionMark{ID: id, DeletionTime: dt, Version: 1}
		ids = append(ids, id)
		times = append(times, dt)
		for _, f := range []string{"/meta.json", "/index", "/chunks/000001", "/deletion-mark.json"} {
			bkt.objs = append(bkt.objs, &verifObject{name: id.String() + f, present: true})
		}
	}
	delay := [3]time.Duration{0, time.Hour, 48 * time.Hour}[verifIntRange("delay", 0, 2)]
	f := block.NewIgnoreDeletionMarkFilter(log.NewNopLogger(), nil, 0, 1)
	block.VerifSetDeletionMarks(f, marks)
	c := NewBlocksCleaner(log.NewNopLogger(), bkt, f, delay, verifCounter(), verifCounter())
	deleted, err := c.DeleteMarkedBlocks(context.Background())
	verifAssert(err == nil, "cleaner-no-error")
	end := time.Now()
	verifAssume(end.Sub(now) < time.Second)
	for i, id := range ids {
		_, del := deleted[id]
		gone := false
		for _, d := range bkt.deleted {
			if len(d) >= 26 && d[:26] == id.String() {
				gone = true
			}
		}
		verifAssert(del == gone, "reported-deleted-iff-objects-removed")
		if gone {
			verifAssert(end.Sub(time.Unix(times[i], 0)) > delay, "deleted-only-after-delete-delay")
			verifReach("deleted")
		}
	}
	verifReach("end")
}

// VerifC32Partial: a partial upload is removed only if every object of it has been untouched for the abort
// threshold and the block is not already scheduled for deletion.
func VerifC32Partial() {
	id := ulid.ULID{15: 7}
	now := time.Now()
	bkt := &verifBucket{}
	no := verifIntRange("objects", 1, verifParam("OBJ", 2))
	names := [3]string{"/index", "/chunks/000001", "/chunks/000002"}
	var mods []int64
	for i := 0; i < no; i++ {
		mtOff := verifInt64(verifName("modifiedOffsetSec", i))
		verifAssume(mtOff >= -400000)
		verifAssume(mtOff <= 0)
		mt := now.Unix() + mtOff
		mods = append(mods, mt)
		bkt.objs = append(bkt.objs, &verifObject{name: id.String() + names[i], present: true, modified: time.Unix(mt, 0)})
	}
	marked := verifIntRange("alreadyMarked", 0, 1) == 1
	marks := map[ulid.ULID]*metadata.DeletionMark{}
	if marked {
		marks[id] = &metadata.DeletionMark{ID: id}
	}
	BestEffortCleanAbortedPartialUploads(context.Background(), log.NewNopLogger(), map[ulid.ULID]error{id: nil}, bkt, verifCounter(), verifCounter(), verifCounter(), marks)
	end := time.Now()
	verifAssume(end.Sub(now) < time.Second)
	if len(bkt.deleted) > 0 {
		verifAssert(!marked, "block-scheduled-for-deletion-left-to-the-cleaner")
		for _, mt := range mods {
			verifAssert(end.Sub(time.Unix(mt, 0)) > PartialUploadThresholdAge, "removed-only-when-every-object-untouched-for-threshold")
		}
		verifReach("removed")
	} else {
		verifReach("kept")
	}
}
