package compact

import (
	"bytes"
	"context"
	"encoding/json"
	"errors"
	"io"
	"io/fs"
	"os"

	"github.com/go-kit/log"
	"github.com/oklog/ulid/v2"
	"github.com/thanos-io/objstore"

	"github.com/thanos-io/thanos/pkg/block"
	"github.com/thanos-io/thanos/pkg/block/metadata"
)

// the compactor's local working directory is not the subject: directory calls succeed and do nothing
func verifC33MkdirAll(string, fs.FileMode) error  { return nil }
func verifC33RemoveAll(string) error             { return nil }
func verifC33OpenRoot(string) (*os.Root, error)  { return &os.Root{}, nil }
func verifC33RootClose(*os.Root) error           { return nil }

type verifC33Bucket struct {
	verifBucket
	content  map[string][]byte
	failGet  string
	failBody string // Get of this object succeeds but reading its body breaks
	failIter bool
	reads    int
}

var errVerifC33Transient = errors.New("transient read failure")

func (b *verifC33Bucket) Get(_ context.Context, name string) (io.ReadCloser, error) {
	b.reads++
	if name == b.failGet {
		return nil, errVerifC33Transient
	}
	if b.find(name) == nil {
		return nil, errVerifNotFound
	}
	if name == b.failBody {
		return io.NopCloser(verifC33BrokenBody{}), nil
	}
	return io.NopCloser(bytes.NewReader(b.content[name])), nil
}
type verifC33BrokenBody struct{}

func (verifC33BrokenBody) Read([]byte) (int, error) { return 0, errVerifC33Transient }

func (b *verifC33Bucket) Iter(ctx context.Context, dir string, f func(string) error, options ...objstore.IterOption) error {
	if b.failIter {
		return errVerifC33Transient
	}
	return b.verifBucket.Iter(ctx, dir, f, options...)
}
func (b *verifC33Bucket) IterWithAttributes(ctx context.Context, dir string, f func(objstore.IterObjectAttributes) error, options ...objstore.IterOption) error {
	if b.failIter {
		return errVerifC33Transient
	}
	return b.verifBucket.IterWithAttributes(ctx, dir, f, options...)
}
func (b *verifC33Bucket) ReaderWithExpectedErrs(objstore.IsOpFailureExpectedFunc) objstore.BucketReader {
	return b
}
func (b *verifC33Bucket) WithExpectedErrs(objstore.IsOpFailureExpectedFunc) objstore.Bucket { return b }

func verifC33Meta(id ulid.ULID) []byte {
	if verifNative() {
		m := metadata.Meta{}
		m.ULID = id
		m.Version = metadata.TSDBVersion1
		m.MinTime, m.MaxTime = 0, 7200000
		m.Compaction.Level = 1
		m.Thanos.Version = metadata.ThanosVersion1
		b, err := json.Marshal(&m)
		if err != nil {
			panic(err)
		}
		return b
	}
	return append([]byte{}, id[:]...)
}

// VerifC33Compact (C33): when reading a block's meta.json, a deletion mark, or the bucket listing fails in the
// sync of an iteration, BucketCompactor.Compact returns an error and has neither uploaded (marks, compacted
// blocks) nor deleted anything.
func VerifC33Compact() {
	n := verifIntRange("blocks", 1, verifParam("BLOCKS", 2))
	bkt := &verifC33Bucket{content: map[string][]byte{}}
	var ids []ulid.ULID
	for i := 0; i < n; i++ {
		id := ulid.ULID{15: byte(i + 1)}
		ids = append(ids, id)
		dir := id.String()
		bkt.objs = append(bkt.objs, &verifObject{name: dir + "/index", present: true})
		if verifIntRange(verifName("complete", i), 0, 1) == 1 {
			bkt.objs = append(bkt.objs, &verifObject{name: dir + "/meta.json", present: true})
			bkt.content[dir+"/meta.json"] = verifC33Meta(id)
		}
	}
	victim := ids[verifIntRange("failingBlock", 0, n-1)].String()
	failKind := verifParam("FAILKIND", 0)
	if failKind == 0 {
		failKind = verifIntRange("failure", 1, 4)
	}
	switch failKind {
	case 1:
		bkt.failGet = victim + "/meta.json"
	case 2:
		bkt.failGet = victim + "/deletion-mark.json"
	case 4:
		bkt.failBody = victim + "/meta.json"
	default:
		bkt.failIter = true
	}
	logger := log.NewNopLogger()
	delFilter := block.NewIgnoreDeletionMarkFilter(logger, bkt, 0, 1)
	dupFilter := block.NewDeduplicateFilter(1)
	fetcher, err := block.NewMetaFetcher(logger, 1, bkt, block.NewRecursiveLister(logger, bkt), "", nil, []block.MetadataFilter{delFilter})
	verifAssert(err == nil, "fetcher-built")
	if err != nil {
		return
	}
	sy, err := NewMetaSyncer(logger, nil, bkt, fetcher, dupFilter, delFilter, verifCounter(), verifCounter(), 0)
	verifAssert(err == nil, "syncer-built")
	if err != nil {
		return
	}
	grouper := NewDefaultGrouper(logger, bkt, false, false, nil, verifCounter(), verifCounter(), verifCounter(), metadata.NoneFunc, 1, 1)
	bc, err := NewBucketCompactor(logger, sy, grouper, NewTSDBBasedPlanner(logger, []int64{7200000}), nil, "/verif-compact", bkt, 1, false, nil)
	verifAssert(err == nil, "compactor-built")
	if err != nil {
		return
	}
	// only iterations whose sync actually runs into the injected failure are of interest here (meta.json is read
	// when the listing shows it, a block's deletion mark when its meta.json loaded); the failure-free behaviour is
	// VerifC33Fetch's subject
	hit := bkt.failIter
	if failKind == 1 {
		hit = bkt.find(bkt.failGet) != nil
	}
	if failKind == 4 {
		hit = bkt.find(bkt.failBody) != nil
	}
	if failKind == 2 {
		hit = bkt.find(victim+"/meta.json") != nil
	}
	verifAssume(hit)
	cerr := bc.Compact(context.Background())
	if hit {
		verifAssert(cerr != nil, "failed-read-fails-the-iteration")
		verifAssert(len(bkt.uploads) == 0, "nothing-uploaded-or-marked-on-an-incomplete-view")
		verifAssert(len(bkt.deleted) == 0, "nothing-deleted-on-an-incomplete-view")
		verifAssert(len(sy.Metas()) == 0, "no-view-installed-from-a-failed-sync")
		verifReach("incomplete-view")
	}
	verifReach("end")
}

func verifC33DeleteAll(string, ...string) error { return nil }
