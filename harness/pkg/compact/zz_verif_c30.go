package compact

import (
	"github.com/oklog/ulid/v2"

	"github.com/thanos-io/thanos/pkg/block/metadata"
)

var verifC30Ranges = []int64{20, 60, 180}

func verifC30Floor(t, r int64) int64 {
	q := t / r
	if t%r < 0 {
		q--
	}
	return q * r
}

// VerifC30Plan: one planning step on an arbitrary block list sorted by MinTime.
func VerifC30Plan() {
	n := verifIntRange("blocks", 1, verifParam("N", 4))
	lim := int64(verifParam("LIM", 1000))
	aligned := verifIntRange("alignedInput", verifParam("ALIGNED_LO", 0), 1) == 1
	metas := make([]*metadata.Meta, n)
	marks := map[ulid.ULID]*metadata.NoCompactMark{}
	anyMark := false
	for i := 0; i < n; i++ {
		m := &metadata.Meta{}
		m.ULID = ulid.ULID{15: byte(i + 1)}
		mn := verifInt64(verifName("min", i))
		mx := verifInt64(verifName("max", i))
		verifAssume(-lim <= mn)
		verifAssume(mn < mx)
		verifAssume(mx <= lim)
		if i > 0 {
			verifAssume(metas[i-1].MinTime <= mn)
		}
		m.MinTime, m.MaxTime = mn, mx
		if aligned {
			// non-overlapping, each block inside one window of the smallest range
			if i > 0 {
				verifAssume(metas[i-1].MaxTime <= mn)
			}
			verifAssume(mx <= verifC30Floor(mn, verifC30Ranges[0])+verifC30Ranges[0])
		}
		if verifParam("MARKS", 1) == 1 {
			if verifIntRange(verifName("mark", i), 0, 1) == 1 {
				marks[m.ULID] = &metadata.NoCompactMark{ID: m.ULID}
				anyMark = true
			}
		}
		if verifParam("TOMB", 1) == 1 {
			if verifIntRange(verifName("tomb", i), 0, 1) == 1 {
				m.Stats.NumTombstones = 10
				m.Stats.NumSeries = 10
			}
		}
		metas[i] = m
	}
	p := NewTSDBBasedPlanner(nil, verifC30Ranges)
	plan, err := p.plan(marks, metas)
	verifAssert(err == nil, "plan-no-error")
	if len(plan) == 0 {
		// nothing to do: without marks the blocks do not overlap
		if !anyMark {
			for i := 1; i < n; i++ {
				verifAssert(metas[i-1].MaxTime <= metas[i].MinTime, "no-plan-means-no-overlap")
			}
		}
		verifReach("no-plan")
		return
	}
	verifReach("plan")
	// (1) at least two blocks, or one block with many tombstones and a big enough range
	if len(plan) == 1 {
		b := plan[0]
		verifAssert(b.Stats.NumTombstones > 0, "single-block-plan-has-tombstones")
		verifAssert(b.MaxTime-b.MinTime >= verifC30Ranges[len(verifC30Ranges)/2], "single-block-plan-range-big-enough")
	}
	// (2) never a no-compact marked block; all planned blocks are input blocks, no block twice
	for i, b := range plan {
		_, marked := marks[b.ULID]
		verifAssert(!marked, "no-marked-block-planned")
		isInput := false
		for _, m := range metas {
			if m == b {
				isInput = true
			}
		}
		verifAssert(isInput, "planned-block-is-an-input-block")
		for j := i + 1; j < len(plan); j++ {
			verifAssert(plan[i] != plan[j], "no-block-twice")
		}
	}
	// (3) aligned non-overlapping input: newest block not planned, plan fits one aligned configured range
	if aligned && len(plan) > 1 {
		mint, maxt := plan[0].MinTime, plan[0].MaxTime
		for _, b := range plan {
			verifAssert(b != metas[n-1], "newest-block-not-planned")
			if b.MinTime < mint {
				mint = b.MinTime
			}
			if b.MaxTime > maxt {
				maxt = b.MaxTime
			}
		}
		fits := false
		for _, r := range verifC30Ranges[1:] {
			fits = verifAny(fits, maxt <= verifC30Floor(mint, r)+r)
		}
		verifAssert(fits, "plan-fits-one-aligned-configured-range")
		verifReach("aligned-plan")
	}
	verifReach("end")
}
