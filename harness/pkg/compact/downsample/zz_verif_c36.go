package downsample

import (
	"math"

	"github.com/prometheus/prometheus/tsdb/chunks"
)

func verifC36Raw(n int, counter bool) []sample {
	lim := int64(1) << 40
	data := make([]sample, n)
	for i := range data {
		t := verifInt64(verifName("t", i))
		verifAssume(t >= 0)
		verifAssume(t <= lim)
		if i > 0 {
			verifAssume(data[i-1].t < t)
		}
		v := verifFloat(verifName("v", i)) // int53: integer valued, optional NaN flag
		if counter {
			verifAssume(v >= 0)
		} else {
			verifAssume(verifAny(v != v, v >= -float64(1<<31)))
		}
		verifAssume(verifAny(v != v, v <= float64(1<<31)))
		data[i] = sample{t: t, v: v}
	}
	return data
}

func verifWindow(t, res int64) int64 { return t - t%res }

// VerifC36Raw: raw -> aggregates: per output timestamp count/sum/min/max of the non-NaN raw samples of that
// window; totals conserved; chunks ordered and non-overlapping. Any target chunk count.
func VerifC36Raw() {
	verifXORReset()
	n := verifIntRange("samples", 1, verifParam("N", 4))
	res := [2]int64{5, 60}[verifIntRange("res", 0, verifParam("RES", 0))]
	data := verifC36Raw(n, false)
	numChunks := verifIntRange("numChunks", 1, n)
	var chks []chunks.Meta
	downsampleRawLoop(data, res, numChunks, &chks, downsampleFloatBatch)

	totalCount := 0.0
	lastMax := int64(-1)
	outs := 0
	for ci, c := range chks {
		verifAssert(c.MinTime <= c.MaxTime, "chunk-range-wellformed")
		verifAssert(c.MinTime > lastMax, "chunks-ordered-nonoverlapping")
		lastMax = c.MaxTime
		cnt := verifAggr(c.Chunk, AggrCount)
		sum := verifAggr(c.Chunk, AggrSum)
		mn := verifAggr(c.Chunk, AggrMin)
		mx := verifAggr(c.Chunk, AggrMax)
		verifAssert(len(cnt) > 0, "no-empty-chunk")
		verifAssert(len(sum) == len(cnt) && len(mn) == len(cnt) && len(mx) == len(cnt), "aggregates-same-length")
		if len(sum) != len(cnt) || len(mn) != len(cnt) || len(mx) != len(cnt) {
			return
		}
		for k := range cnt {
			T := cnt[k].t
			verifAssert(verifAll(sum[k].t == T, mn[k].t == T, mx[k].t == T), "aggregates-same-timestamps")
			verifAssert(verifAll(c.MinTime <= T, T <= c.MaxTime), "timestamp-inside-chunk")
			if k > 0 {
				verifAssert(cnt[k-1].t < T, "timestamps-increasing")
			}
			// reference aggregates of the window of T
			rc := 0.0
			rs := 0.0
			rmin := math.MaxFloat64
			rmax := -math.MaxFloat64
			for _, s := range data {
				in := verifAll(verifWindow(s.t, res) == verifWindow(T, res), s.v == s.v)
				rc = verifIteF(in, rc+1, rc)
				rs = verifIteF(in, rs+verifIteF(in, s.v, 0), rs)
				rmin = verifIteF(verifAll(in, s.v < rmin), s.v, rmin)
				rmax = verifIteF(verifAll(in, s.v > rmax), s.v, rmax)
			}
			verifAssert(cnt[k].v == rc, "count-of-window")
			verifAssert(sum[k].v == rs, "sum-of-window")
			verifAssert(mn[k].v == rmin, "min-of-window")
			verifAssert(mx[k].v == rmax, "max-of-window")
			totalCount += cnt[k].v
			outs++
		}
		_ = ci
	}
	raw := 0.0
	for _, s := range data {
		raw = verifIteF(s.v == s.v, raw+1, raw)
	}
	verifAssert(totalCount == raw, "total-count-conserved")
	if outs > 1 {
		verifReach("two-outputs")
	}
	if len(chks) > 1 {
		verifReach("two-chunks")
	}
	verifReach("end")
}
