package downsample

import (
	"github.com/prometheus/prometheus/tsdb/chunkenc"
)

// VerifC39RoundTrip: C39 — EncodeAggrChunk / AggrChunk.Get round trip for every presence pattern.
func VerifC39RoundTrip() {
	maxLen := verifParam("L", 2)
	var chks [5]chunkenc.Chunk
	var data [5][]byte
	for i := 0; i < 5; i++ {
		if verifIntRange(verifName("present", i), 0, 1) == 1 {
			n := verifIntRange(verifName("len", i), 1, maxLen)
			b := make([]byte, n)
			for j := range b {
				b[j] = verifByte(verifName("b", i, j))
			}
			c, err := chunkenc.FromData(chunkenc.EncXOR, b)
			verifAssume(err == nil)
			chks[i] = c
			data[i] = b
		}
	}
	enc := EncodeAggrChunk(chks)
	for i := 0; i < 5; i++ {
		got, err := enc.Get(AggrType(i))
		if chks[i] == nil {
			verifAssert(err == ErrAggrNotExist, "absent-reported-not-exist")
			verifReach("absent-checked")
			continue
		}
		verifAssert(err == nil, "present-no-error")
		if err != nil {
			continue
		}
		verifAssert(got.Encoding() == chunkenc.EncXOR, "encoding-preserved")
		gb := got.Bytes()
		verifAssert(len(gb) == len(data[i]), "length-preserved")
		if len(gb) == len(data[i]) {
			for j := range gb {
				verifAssert(gb[j] == data[i][j], "bytes-preserved")
			}
		}
		verifReach("present-checked")
	}
}


var verifC39Lens = [7]int{1, 127, 128, 129, 255, 256, 257}

// VerifC39LengthBoundary: the same round trip where one present sub-chunk (any of the five) has a length on a
// uvarint length-prefix boundary (127/128/129, 255/256/257) and the other present ones are 2 bytes long; first and
// last byte of every sub-chunk are symbolic, the filler is fixed.
func VerifC39LengthBoundary() {
	hot := verifIntRange("hot", 0, 4)
	hotLen := verifC39Lens[verifIntRange("lenIdx", 0, verifParam("LI", 6))]
	var chks [5]chunkenc.Chunk
	var data [5][]byte
	for i := 0; i < 5; i++ {
		if i == hot || verifIntRange(verifName("present", i), 0, 1) == 1 {
			n := 2
			if i == hot {
				n = hotLen
			}
			b := make([]byte, n)
			for j := range b {
				b[j] = byte(0x40 + i)
			}
			b[0] = verifByte(verifName("first", i))
			b[n-1] = verifByte(verifName("last", i))
			c, err := chunkenc.FromData(chunkenc.EncXOR, b)
			verifAssume(err == nil)
			chks[i] = c
			data[i] = b
		}
	}
	enc := EncodeAggrChunk(chks)
	for i := 0; i < 5; i++ {
		got, err := enc.Get(AggrType(i))
		if chks[i] == nil {
			verifAssert(err == ErrAggrNotExist, "absent-reported-not-exist")
			verifReach("absent-checked")
			continue
		}
		verifAssert(err == nil, "present-no-error")
		if err != nil {
			continue
		}
		verifAssert(got.Encoding() == chunkenc.EncXOR, "encoding-preserved")
		gb := got.Bytes()
		verifAssert(len(gb) == len(data[i]), "length-preserved")
		if len(gb) == len(data[i]) {
			for j := range gb {
				verifAssert(gb[j] == data[i][j], "bytes-preserved")
			}
		}
		verifReach("present-checked")
	}
}
