package downsample

import (
	"math"

	"github.com/prometheus/prometheus/tsdb/chunkenc"
	"github.com/prometheus/prometheus/tsdb/chunks"
)

// verifLevel1 downsamples raw data with the real raw loop (any chunk count).
func verifLevel1(data []sample, res int64) []chunks.Meta {
	numChunks := verifIntRange("numChunks1", 1, len(data))
	var chks []chunks.Meta
	downsampleRawLoop(data, res, numChunks, &chks, downsampleFloatBatch)
	return chks
}

// verifLevel2 re-downsamples aggregate chunks with the real aggregate loop (any admissible chunk count).
func verifLevel2(l1 []chunks.Meta, res int64) []chunks.Meta {
	var in []*AggrChunk
	for _, c := range l1 {
		in = append(in, c.Chunk.(*AggrChunk))
	}
	numChunks := verifIntRange("numChunks2", 1, len(in))
	var buf []sample
	out, err := downsampleAggrLoop(in, &buf, res, numChunks, downsampleFloatAggrBatch)
	verifAssert(err == nil, "level2-no-error")
	return out
}

func verifCounterRead(chks []chunks.Meta) []verifPoint {
	var its []chunkenc.Iterator
	for _, c := range chks {
		x, err := c.Chunk.(*AggrChunk).Get(AggrCounter)
		verifAssert(err == nil, "counter-aggregate-present")
		if err != nil {
			return nil
		}
		its = append(its, x.Iterator(nil))
	}
	it := NewApplyCounterResetsIterator(its...)
	var out []verifPoint
	for it.Next() != chunkenc.ValNone {
		t, v := it.At()
		out = append(out, verifPoint{t, v})
	}
	return out
}

// reference: reset-adjusted raw counter up to the last raw sample at or before t
func verifCounterRef(data []sample, t int64) float64 {
	total := 0.0
	for i, s := range data {
		d := s.v
		if i > 0 {
			d = verifIteF(s.v >= data[i-1].v, s.v-data[i-1].v, s.v)
		}
		total = verifIteF(s.t <= t, total+d, total)
	}
	return total
}

func verifCheckCounter(data []sample, got []verifPoint, id string) {
	last := int64(-1)
	for _, p := range got {
		verifAssert(p.t > last, id+"-timestamps-increasing")
		last = p.t
		verifAssert(p.v == verifCounterRef(data, p.t), id+"-counter-equals-reset-adjusted-raw")
	}
	verifAssert(len(got) > 0, id+"-counter-nonempty")
	if len(got) > 0 {
		verifAssert(got[len(got)-1].v == verifCounterRef(data, math.MaxInt64), id+"-total-increase-preserved")
	}
}

// VerifC37Counter: counter aggregate after one and two levels of downsampling.
func VerifC37Counter() {
	verifXORReset()
	n := verifIntRange("samples", 1, verifParam("N", 4))
	data := verifC36Raw(n, true)
	for _, s := range data {
		verifAssume(s.v == s.v) // counters: no NaN (stale markers are dropped by a separate path)
	}
	l1 := verifLevel1(data, 5)
	verifCheckCounter(data, verifCounterRead(l1), "level1")
	if verifParam("LEVEL2", 1) == 1 {
		l2 := verifLevel2(l1, 20)
		verifCheckCounter(data, verifCounterRead(l2), "level2")
		verifReach("level2")
	}
	if len(l1) > 1 {
		verifReach("two-chunks")
	}
	verifReach("end")
}

// VerifC38Totals: re-downsampling conserves total count, total sum, overall min and max, and keeps
// output timestamps ordered inside the input's time span.
func VerifC38Totals() {
	verifXORReset()
	n := verifIntRange("samples", 1, verifParam("N", 4))
	data := verifC36Raw(n, false)
	for _, s := range data {
		verifAssume(s.v == s.v)
	}
	l1 := verifLevel1(data, 5)
	l2 := verifLevel2(l1, 20)
	// input (level-1) totals
	sumOf := func(chks []chunks.Meta, t AggrType) float64 {
		r := 0.0
		for _, c := range chks {
			for _, p := range verifAggr(c.Chunk, t) {
				r += p.v
			}
		}
		return r
	}
	verifAssert(sumOf(l2, AggrCount) == sumOf(l1, AggrCount), "total-count-conserved")
	verifAssert(sumOf(l2, AggrSum) == sumOf(l1, AggrSum), "total-sum-conserved")
	minOf := func(chks []chunks.Meta) float64 {
		r := math.MaxFloat64
		for _, c := range chks {
			for _, p := range verifAggr(c.Chunk, AggrMin) {
				r = verifIteF(p.v < r, p.v, r)
			}
		}
		return r
	}
	maxOf := func(chks []chunks.Meta) float64 {
		r := -math.MaxFloat64
		for _, c := range chks {
			for _, p := range verifAggr(c.Chunk, AggrMax) {
				r = verifIteF(p.v > r, p.v, r)
			}
		}
		return r
	}
	verifAssert(minOf(l2) == minOf(l1), "overall-min-conserved")
	verifAssert(maxOf(l2) == maxOf(l1), "overall-max-conserved")
	lo, hi := l1[0].MinTime, l1[len(l1)-1].MaxTime
	last := int64(-1)
	for _, c := range l2 {
		for _, p := range verifAggr(c.Chunk, AggrCount) {
			verifAssert(p.t > last, "output-timestamps-ordered")
			last = p.t
			verifAssert(verifAll(lo <= p.t, p.t <= hi), "output-inside-input-span")
		}
		verifAssert(verifAll(c.MinTime <= c.MaxTime, lo <= c.MinTime, c.MaxTime <= hi), "chunk-range-inside-input-span")
	}
	if len(l1) > 1 {
		verifReach("two-input-chunks")
	}
	verifReach("end")
}

// verifLevel1PerWindow: level-1 chunks with one downsampling window per chunk (each built by the real
// downsampleFloatBatch), so that many input chunks exist for small n.
func verifLevel1PerWindow(data []sample, res int64) []chunks.Meta {
	var out []chunks.Meta
	start := 0
	for i := 1; i <= len(data); i++ {
		if i == len(data) || verifWindow(data[i].t, res) != verifWindow(data[start].t, res) {
			out = append(out, downsampleFloatBatch(data[start:i], res))
			start = i
		}
	}
	return out
}

// VerifC38ManyChunks: as VerifC38Totals with one input chunk per 5-unit window (3+ input chunks, every
// admissible target chunk count, including counts that do not divide the number of input chunks).
func VerifC38ManyChunks() {
	verifXORReset()
	n := verifIntRange("samples", 2, verifParam("N", 3))
	data := verifC36Raw(n, false)
	for _, s := range data {
		verifAssume(s.v == s.v)
	}
	l1 := verifLevel1PerWindow(data, 5)
	l2 := verifLevel2(l1, 20)
	cnt, sum := 0.0, 0.0
	mn, mx := math.MaxFloat64, -math.MaxFloat64
	for _, c := range l2 {
		for _, p := range verifAggr(c.Chunk, AggrCount) {
			cnt += p.v
		}
		for _, p := range verifAggr(c.Chunk, AggrSum) {
			sum += p.v
		}
		for _, p := range verifAggr(c.Chunk, AggrMin) {
			mn = verifIteF(p.v < mn, p.v, mn)
		}
		for _, p := range verifAggr(c.Chunk, AggrMax) {
			mx = verifIteF(p.v > mx, p.v, mx)
		}
	}
	rsum := 0.0
	rmn, rmx := math.MaxFloat64, -math.MaxFloat64
	for _, s := range data {
		rsum += s.v
		rmn = verifIteF(s.v < rmn, s.v, rmn)
		rmx = verifIteF(s.v > rmx, s.v, rmx)
	}
	verifAssert(cnt == float64(n), "total-count-conserved")
	verifAssert(sum == rsum, "total-sum-conserved")
	verifAssert(mn == rmn, "overall-min-conserved")
	verifAssert(mx == rmx, "overall-max-conserved")
	verifCheckCounterNonNeg(data, l2)
	if len(l1) > 2 {
		verifReach("three-input-chunks")
	}
	verifReach("end")
}

func verifCheckCounterNonNeg(data []sample, l2 []chunks.Meta) {}
