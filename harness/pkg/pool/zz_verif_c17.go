package pool

// VerifC17Budget: a size-bounded pool never has more bytes checked out than its maximum, its accounting
// equals the bytes actually checked out, and usage returns to zero once every buffer is returned.
func VerifC17Budget() {
	maxTotal := verifUint64("maxTotal")
	verifAssume(maxTotal <= 24)
	p, err := NewBucketedPool[byte](2, 8, 2, maxTotal) // buckets 2, 4, 8
	verifAssert(err == nil, "pool-created")
	if err != nil {
		return
	}
	var held []*[]byte
	heldBytes := uint64(0)
	ops := verifParam("OPS", 4)
	for i := 0; i < ops; i++ {
		if len(held) == 0 || verifIntRange(verifName("op", i), 0, 1) == 0 {
			sz := verifInt(verifName("size", i))
			verifAssume(sz >= 1)
			verifAssume(sz <= 10)
			b, gerr := p.Get(sz)
			if gerr == nil {
				verifAssert(cap(*b) >= sz, "buffer-large-enough")
				held = append(held, b)
				heldBytes += uint64(cap(*b))
				if maxTotal > 0 {
					verifAssert(heldBytes <= maxTotal, "checked-out-bytes-within-budget")
				}
				verifReach("got")
			} else {
				verifAssert(maxTotal > 0, "unbounded-pool-never-exhausted")
				verifReach("exhausted")
			}
		} else {
			k := verifIntRange(verifName("put", i), 0, len(held)-1)
			b := held[k]
			heldBytes -= uint64(cap(*b))
			held = append(held[:k:k], held[k+1:]...)
			p.Put(b)
		}
		verifAssert(p.UsedBytes() == heldBytes, "accounting-equals-bytes-checked-out")
	}
	for _, b := range held {
		p.Put(b)
	}
	verifAssert(p.UsedBytes() == 0, "usage-returns-to-zero")
	verifReach("end")
}
