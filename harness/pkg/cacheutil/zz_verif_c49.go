package cacheutil

import "net"

// VerifC49Jump: the real jumpHash - result in [0,n), and growing the bucket count by one either keeps a
// key's bucket or moves it to the new bucket.
func VerifC49Jump() {
	key := verifUint64("key")
	n := verifIntRange("n", 1, verifParam("N", 3))
	r := jumpHash(key, n)
	verifAssert(r >= 0, "bucket-nonnegative")
	verifAssert(int(r) < n, "bucket-below-n")
	r2 := jumpHash(key, n+1)
	verifAssert(verifAny(r2 == r, int(r2) == n), "grow-keeps-or-moves-to-new")
	if int(r2) == n {
		verifReach("moved")
	}
	verifReach("end")
}

// ---- selector level ----

// verifC49Addr replaces parseStaticAddr (DNS / net resolution): the address string is the server name.
func verifC49Addr(server string) (net.Addr, error) {
	return &staticAddr{ntw: "tcp", str: server}, nil
}

// verifC49JumpModel replaces jumpHash in the selector harnesses by an arbitrary *consistent* bucket
// function: bucket(k,1)=0 and bucket(k,n+1) is n or bucket(k,n), decided by an uninterpreted predicate of
// (k,n). VerifC49Jump checks on the real jumpHash that it is such a function.
func verifC49JumpModel(key uint64, numBuckets int) int32 {
	b := int64(0)
	for n := 1; n < numBuckets; n++ {
		h := verifHash("jumpmoves", verifC49KeyN(key, n))
		b = verifIte64(h&1 == 1, int64(n), b)
	}
	return int32(b)
}

func verifC49KeyN(key uint64, n int) string {
	var b [9]byte
	for i := 0; i < 8; i++ {
		b[i] = byte(key >> (8 * uint(i)))
	}
	b[8] = byte(n)
	return string(b[:])
}

var verifC49Names = [6]string{"10.0.0.1:1", "10.0.0.2:1", "10.0.0.10:1", "10.0.0.9:1", "10.0.0.3:1", "10.0.0.20:1"}

func verifC49Pick(s *MemcachedJumpHashSelector, key string) string {
	a, err := s.PickServer(key)
	verifAssert(err == nil, "pick-no-error")
	if err != nil {
		return ""
	}
	return a.String()
}

// VerifC49Selector: single lookup == batch lookup; listing order is irrelevant.
func VerifC49Selector() {
	n := verifIntRange("servers", 1, verifParam("S", 3))
	// a permutation of the first n names, chosen by successive picks
	avail := make([]string, n)
	copy(avail, verifC49Names[:n])
	// a server may be listed twice (documented way to give it more weight)
	if dup := verifIntRange("dup", -1, n-1); dup >= 0 {
		avail = append(avail, verifC49Names[dup])
	}
	listed := append([]string{}, avail...)
	var perm []string
	for len(avail) > 0 {
		c := verifIntRange(verifName("perm", len(perm)), 0, len(avail)-1)
		perm = append(perm, avail[c])
		avail = append(avail[:c:c], avail[c+1:]...)
	}
	var s1, s2 MemcachedJumpHashSelector
	verifAssert(s1.SetServers(listed...) == nil, "set-servers-ok")
	verifAssert(s2.SetServers(perm...) == nil, "set-servers-ok")
	k1 := verifHashKey("k1", 1, "abc")
	k2 := verifHashKey("k2", 1, "abc")
	p1 := verifC49Pick(&s1, k1)
	p2 := verifC49Pick(&s1, k2)
	verifAssert(verifC49Pick(&s2, k1) == p1, "listing-order-irrelevant")
	batch, err := s1.PickServerForKeys([]string{k1, k2})
	verifAssert(err == nil, "batch-no-error")
	if err != nil {
		return
	}
	in1, in2 := false, false
	for _, k := range batch[p1] {
		in1 = verifAny(in1, k == k1)
	}
	for _, k := range batch[p2] {
		in2 = verifAny(in2, k == k2)
	}
	verifAssert(in1, "batch-agrees-with-single-k1")
	verifAssert(in2, "batch-agrees-with-single-k2")
	total := 0
	for _, ks := range batch {
		total += len(ks)
	}
	verifAssert(total == 2, "batch-places-every-key-once")
	verifReach("end")
}

// VerifC49AddServer: adding one server only moves keys onto the new server.
func VerifC49AddServer() {
	n := verifIntRange("servers", 1, verifParam("S", 3))
	newIdx := verifIntRange("new", n, verifParam("S", 3))
	var before, after MemcachedJumpHashSelector
	verifAssert(before.SetServers(verifC49Names[:n]...) == nil, "set-servers-ok")
	added := append(append([]string{}, verifC49Names[:n]...), verifC49Names[newIdx])
	verifAssert(after.SetServers(added...) == nil, "set-servers-ok")
	// does the new server sort last in natural order?  (the selector keeps servers sorted)
	verifKnown("C49-new-server-not-last-in-sort-order", after.addrs[len(after.addrs)-1].String() != verifC49Names[newIdx])
	k := verifHashKey("k", 1, "abc")
	pb := verifC49Pick(&before, k)
	pa := verifC49Pick(&after, k)
	verifAssert(verifAny(pa == pb, pa == verifC49Names[newIdx]), "add-server-moves-keys-only-to-new-server")
	verifReach("end")
}
