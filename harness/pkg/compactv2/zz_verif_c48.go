package compactv2

import (
	"github.com/prometheus/prometheus/model/histogram"
	"github.com/prometheus/prometheus/model/labels"
	"github.com/prometheus/prometheus/storage"
	"github.com/prometheus/prometheus/tsdb/chunkenc"
	"github.com/prometheus/prometheus/tsdb/chunks"
	"github.com/prometheus/prometheus/tsdb/tombstones"
	"github.com/prometheus/prometheus/util/annotations"

	"github.com/thanos-io/thanos/pkg/block/metadata"
)

// ---- list-backed chunk (lossless container instead of XOR bit encoding) ----

type verifChunk struct {
	ts []int64
	vs []float64
}

func (c *verifChunk) Bytes() []byte               { return nil }
func (c *verifChunk) Encoding() chunkenc.Encoding { return chunkenc.EncXOR }
func (c *verifChunk) Appender() (chunkenc.Appender, error) {
	return &verifAppender{ts: &c.ts, vs: &c.vs}, nil
}
func (c *verifChunk) NumSamples() int { return len(c.ts) }
func (c *verifChunk) Compact()        {}
func (c *verifChunk) Reset([]byte)    {}
func (c *verifChunk) Iterator(chunkenc.Iterator) chunkenc.Iterator {
	return &verifChunkIter{ts: c.ts, vs: c.vs, i: -1}
}

type verifAppender struct {
	ts *[]int64
	vs *[]float64
}

func (a *verifAppender) Append(t int64, v float64) {
	*a.ts = append(*a.ts, t)
	*a.vs = append(*a.vs, v)
}
func (a *verifAppender) AppendHistogram(*chunkenc.HistogramAppender, int64, *histogram.Histogram, bool) (chunkenc.Chunk, bool, chunkenc.Appender, error) {
	panic("no histograms")
}
func (a *verifAppender) AppendFloatHistogram(*chunkenc.FloatHistogramAppender, int64, *histogram.FloatHistogram, bool) (chunkenc.Chunk, bool, chunkenc.Appender, error) {
	panic("no histograms")
}

type verifChunkIter struct {
	ts []int64
	vs []float64
	i  int
}

func (it *verifChunkIter) Next() chunkenc.ValueType {
	if it.i+1 >= len(it.ts) {
		it.i = len(it.ts)
		return chunkenc.ValNone
	}
	it.i++
	return chunkenc.ValFloat
}
func (it *verifChunkIter) Seek(t int64) chunkenc.ValueType {
	if it.i < 0 {
		it.i = 0
	}
	for it.i < len(it.ts) {
		if it.ts[it.i] >= t {
			return chunkenc.ValFloat
		}
		it.i++
	}
	return chunkenc.ValNone
}
func (it *verifChunkIter) At() (int64, float64) { return it.ts[it.i], it.vs[it.i] }
func (it *verifChunkIter) AtHistogram(*histogram.Histogram) (int64, *histogram.Histogram) {
	panic("no histograms")
}
func (it *verifChunkIter) AtFloatHistogram(*histogram.FloatHistogram) (int64, *histogram.FloatHistogram) {
	panic("no histograms")
}
func (it *verifChunkIter) AtT() int64 { return it.ts[it.i] }
func (it *verifChunkIter) Err() error { return nil }

// XOR chunk re-encoding inside delChunkSeriesIterator.Next: the real *XORChunk object is kept, its sample
// stream lives in this side table (engine only; natively the real XOR encoder runs on the concrete values).
var verifXOR = map[*chunkenc.XORChunk]*verifChunk{}

func verifXORSide(c *chunkenc.XORChunk) *verifChunk {
	s, ok := verifXOR[c]
	if !ok {
		s = &verifChunk{}
		verifXOR[c] = s
	}
	return s
}
func verifXORAppender(c *chunkenc.XORChunk) (chunkenc.Appender, error) { return verifXORSide(c).Appender() }
func verifXORIterator(c *chunkenc.XORChunk, it chunkenc.Iterator) chunkenc.Iterator {
	return verifXORSide(c).Iterator(nil)
}
func verifXORNumSamples(c *chunkenc.XORChunk) int { return verifXORSide(c).NumSamples() }

// ---- chunk series set ----

type verifCSeries struct {
	lset labels.Labels
	chks []chunks.Meta
}

func (s *verifCSeries) Labels() labels.Labels { return s.lset }
func (s *verifCSeries) Iterator(chunks.Iterator) chunks.Iterator {
	return &verifMetaIter{chks: s.chks, i: -1}
}

type verifMetaIter struct {
	chks []chunks.Meta
	i    int
}

func (it *verifMetaIter) Next() bool      { it.i++; return it.i < len(it.chks) }
func (it *verifMetaIter) At() chunks.Meta { return it.chks[it.i] }
func (it *verifMetaIter) Err() error      { return nil }

type verifCSet struct {
	series []*verifCSeries
	i      int
}

func (s *verifCSet) Next() bool                        { s.i++; return s.i < len(s.series) }
func (s *verifCSet) At() storage.ChunkSeries           { return s.series[s.i] }
func (s *verifCSet) Err() error                        { return nil }
func (s *verifCSet) Warnings() annotations.Annotations { return nil }

type verifNopLog struct{}

func (verifNopLog) DeleteSeries(labels.Labels, tombstones.Intervals) {}
func (verifNopLog) ModifySeries(labels.Labels, labels.Labels)        {}
func (verifNopLog) SeriesProcessed()                                 {}

type verifReq struct {
	names     []string
	values    []string
	intervals tombstones.Intervals
}

// VerifC48Delete: a sample survives the rewrite iff no deletion request both matches its series
// (all matchers match and the series carries every label they name) and covers its timestamp.
func VerifC48Delete() {
	lim := int64(1) << 40
	nser := verifIntRange("series", 1, verifParam("SER", 2))
	names := [2]string{"a", "b"}
	var in []*verifCSeries
	var lvals [][2]string
	var lhas [][2]bool
	for s := 0; s < nser; s++ {
		var ls []labels.Label
		var vals [2]string
		var has [2]bool
		// label a always present (series are told apart by it), label b optional
		vals[0] = verifStrN(verifName("la", s), 1, "xy")
		has[0] = true
		ls = append(ls, labels.Label{Name: "a", Value: vals[0]})
		if verifIntRange(verifName("hasb", s), 0, 1) == 1 {
			vals[1] = verifStrN(verifName("lb", s), 1, "xy")
			has[1] = true
			ls = append(ls, labels.Label{Name: "b", Value: vals[1]})
		}
		cs := &verifCSeries{lset: labels.New(ls...)}
		nch := verifIntRange(verifName("chunks", s), 1, verifParam("CH", 2))
		last := -lim - 1
		for c := 0; c < nch; c++ {
			n := verifIntRange(verifName("samples", s, c), 1, verifParam("N", 2))
			ch := &verifChunk{}
			for j := 0; j < n; j++ {
				t := verifInt64(verifName("t", s, c, j))
				verifAssume(t > last)
				verifAssume(t <= lim)
				last = t
				ch.ts = append(ch.ts, t)
				ch.vs = append(ch.vs, verifFloat(verifName("v", s, c, j)))
			}
			cs.chks = append(cs.chks, chunks.Meta{MinTime: ch.ts[0], MaxTime: ch.ts[len(ch.ts)-1], Chunk: ch})
		}
		in = append(in, cs)
		lvals = append(lvals, vals)
		lhas = append(lhas, has)
	}
	nreq := verifIntRange("requests", 1, verifParam("REQ", 2))
	var reqs []metadata.DeletionRequest
	var ref []verifReq
	for r := 0; r < nreq; r++ {
		var dr metadata.DeletionRequest
		var rr verifReq
		nm := verifIntRange(verifName("matchers", r), 1, verifParam("M", 2))
		for k := 0; k < nm; k++ {
			name := names[verifIntRange(verifName("mname", r, k), 0, 1)]
			val := verifStrN(verifName("mval", r, k), 1, "xy")
			dr.Matchers = append(dr.Matchers, &labels.Matcher{Type: labels.MatchEqual, Name: name, Value: val})
			rr.names = append(rr.names, name)
			rr.values = append(rr.values, val)
		}
		ni := verifIntRange(verifName("intervals", r), 0, verifParam("IV", 2))
		for k := 0; k < ni; k++ {
			mn := verifInt64(verifName("imin", r, k))
			mx := verifInt64(verifName("imax", r, k))
			verifAssume(-lim <= mn)
			verifAssume(mn <= mx)
			verifAssume(mx <= lim)
			iv := tombstones.Interval{Mint: mn, Maxt: mx}
			dr.Intervals = append(dr.Intervals, iv)
			rr.intervals = append(rr.intervals, iv)
		}
		reqs = append(reqs, dr)
		ref = append(ref, rr)
	}
	_, out := WithDeletionModifier(reqs...).Modify(nil, &verifCSet{series: in, i: -1}, verifNopLog{}, verifNopLog{})

	// collect surviving samples per input series (series keep their order; a fully deleted series is absent)
	type smp struct {
		t int64
		v float64
	}
	survived := make([][]smp, nser)
	cursor := 0
	for out.Next() {
		so := out.At()
		// find the input series this output belongs to: next input series (in order) with the same labels
		for cursor < nser && !labels.Equal(in[cursor].lset, so.Labels()) {
			cursor++
		}
		verifAssert(cursor < nser, "output-series-exists-in-input")
		if cursor >= nser {
			return
		}
		it := so.Iterator(nil)
		lastT := -lim - 2
		for it.Next() {
			m := it.At()
			si := m.Chunk.Iterator(nil)
			cnt := 0
			for si.Next() != chunkenc.ValNone {
				t, v := si.At()
				verifAssert(t > lastT, "output-ordered")
				verifAssert(verifAll(m.MinTime <= t, t <= m.MaxTime), "sample-inside-chunk-meta")
				lastT = t
				survived[cursor] = append(survived[cursor], smp{t, v})
				cnt++
			}
			verifAssert(cnt > 0, "no-empty-output-chunk")
		}
		verifAssert(it.Err() == nil, "no-iteration-error")
		cursor++
	}
	verifAssert(out.Err() == nil, "no-set-error")
	// oracle
	for s := 0; s < nser; s++ {
		for _, m := range in[s].chks {
			ch := m.Chunk.(*verifChunk)
			for j, t := range ch.ts {
				deleted := false
				for _, rr := range ref {
					match := true
					for k := range rr.names {
						idx := 0
						if rr.names[k] == "b" {
							idx = 1
						}
						if !lhas[s][idx] {
							match = false
						} else {
							match = verifAll(match, lvals[s][idx] == rr.values[k])
						}
					}
					cover := len(rr.intervals) == 0
					for _, iv := range rr.intervals {
						cover = verifAny(cover, verifAll(iv.Mint <= t, t <= iv.Maxt))
					}
					deleted = verifAny(deleted, verifAll(match, cover))
				}
				found := false
				for _, x := range survived[s] {
					found = verifAny(found, x.t == t)
				}
				verifAssert(verifImplies(!deleted, found), "sample-outside-requests-survives")
				verifAssert(verifImplies(deleted, !found), "requested-sample-is-deleted")
				_ = j
			}
		}
	}
	verifReach("end")
}
