#!/bin/bash
# builds /verif/bin/gosym offline
set -e
export PATH=/opt/veriftools/go1.26.8/bin:$PATH GOTOOLCHAIN=local GOFLAGS=-mod=mod GOPROXY=off GOSUMDB=off
cd /verif/engine
mkdir -p /verif/bin
go build -o /verif/bin/gosym.new ./cmd/gosym
mv -f /verif/bin/gosym.new /verif/bin/gosym
