package sym

import (
	"fmt"
	"math/big"
	"strings"
)

// Integer ("int") printing mode.
//
// Every bit-vector term of width w is printed as an SMT Int that holds the *signed* value of the
// bit-vector, i.e. the canonical representative in [-2^(w-1), 2^(w-1)). The translation is exact
// (bit-precise, wrap-around preserved) - it is not an approximation by mathematical integers:
//   add/sub/neg   one conditional correction by 2^w (operands are in range, so one suffices)
//   mul, shl      ((x + 2^(w-1)) mod 2^w) - 2^(w-1)
//   div/rem       on signed / unsigned views, SMT-LIB division-by-zero results reproduced
//   extract, extensions, concat by div/mod with powers of two
//   and/or/xor, symbolic shifts: through int2bv / bv2nat (correct, slow; rare in the code analysed)
// Linear arithmetic solvers decide x/c, x%c, k*step with 64-bit operands in milliseconds where the
// bit-blasted encoding does not finish.

func pow2(n int) string {
	return new(big.Int).Lsh(big.NewInt(1), uint(n)).String()
}

func intLit(v int64) string {
	if v < 0 {
		if v == -v { // MinInt64
			return "(- " + pow2(63) + ")"
		}
		return fmt.Sprintf("(- %d)", -v)
	}
	return fmt.Sprintf("%d", v)
}

func (s Sort) SMTInt() string {
	if s.K == KBV {
		return "Int"
	}
	return s.SMT()
}

// RangeInt is the range constraint of a declared variable / UF result.
func RangeInt(name string, w int) string {
	return fmt.Sprintf("(and (<= (- %s) %s) (< %s %s))", pow2(w-1), name, name, pow2(w-1))
}

func RefInt(t *Term) string {
	if t.Op == OConst && t.Sort.K == KBV {
		return intLit(sext(t.C, t.Sort.W))
	}
	return Ref(t)
}

func wrap1(x string, w int) string {
	h, m := pow2(w-1), pow2(w)
	return fmt.Sprintf("(let ((wx %s)) (ite (>= wx %s) (- wx %s) (ite (< wx (- %s)) (+ wx %s) wx)))", x, h, m, h, m)
}
func wrapN(x string, w int) string {
	h, m := pow2(w-1), pow2(w)
	// the in-range case first: linear solvers then never have to look at the mod term when no wrap-around occurs
	return fmt.Sprintf("(let ((px %s)) (ite (and (<= (- %s) px) (< px %s)) px (- (mod (+ px %s) %s) %s)))", x, h, h, h, m, h)
}
func uns(x string, w int) string {
	return fmt.Sprintf("(let ((ux %s)) (ite (< ux 0) (+ ux %s) ux))", x, pow2(w))
}
func sgn(y string, w int) string {
	return fmt.Sprintf("(let ((sy %s)) (ite (>= sy %s) (- sy %s) sy))", y, pow2(w-1), pow2(w))
}
func toBV(x string, w int) string {
	return fmt.Sprintf("((_ int2bv %d) %s)", w, x) // int2bv takes the value mod 2^w: signed rep is fine
}
func ofBV(b string, w int) string { return sgn("(bv2nat "+b+")", w) }

// BodyInt prints the defining expression of a non-leaf term in integer mode.
func BodyInt(t *Term) string {
	a := func(i int) string { return RefInt(t.Args[i]) }
	switch t.Sort.K {
	case KBool:
		switch t.Op {
		case ONot, OAnd, OOr:
			return Body(t)
		case OIte:
			return fmt.Sprintf("(ite %s %s %s)", a(0), a(1), a(2))
		case OEq:
			if t.Args[0].Sort.K == KFP {
				return Body(t)
			}
			return fmt.Sprintf("(= %s %s)", a(0), a(1))
		case OSLT:
			return fmt.Sprintf("(< %s %s)", a(0), a(1))
		case OSLE:
			return fmt.Sprintf("(<= %s %s)", a(0), a(1))
		case OULT, OULE:
			w := t.Args[0].Sort.W
			op := "<"
			if t.Op == OULE {
				op = "<="
			}
			return fmt.Sprintf("(%s %s %s)", op, uns(a(0), w), uns(a(1), w))
		case OUF:
			return ufInt(t)
		}
		return Body(t) // FP predicates
	case KFP:
		switch t.Op {
		case OFPOfBits:
			return fmt.Sprintf("((_ to_fp 11 53) %s)", toBV(a(0), 64))
		case OFPFromSInt:
			return fmt.Sprintf("((_ to_fp 11 53) RNE (to_real %s))", a(0))
		case OFPFromUInt:
			return fmt.Sprintf("((_ to_fp 11 53) RNE (to_real %s))", uns(a(0), t.Args[0].Sort.W))
		case OIte:
			return fmt.Sprintf("(ite %s %s %s)", a(0), a(1), a(2))
		}
		return Body(t)
	}
	w := t.Sort.W
	switch t.Op {
	case OIte:
		return fmt.Sprintf("(ite %s %s %s)", a(0), a(1), a(2))
	case OAdd:
		return wrap1(fmt.Sprintf("(+ %s %s)", a(0), a(1)), w)
	case OSub:
		return wrap1(fmt.Sprintf("(- %s %s)", a(0), a(1)), w)
	case ONeg:
		return wrap1(fmt.Sprintf("(- %s)", a(0)), w)
	case OBNot:
		return fmt.Sprintf("(- (- %s) 1)", a(0))
	case OMul:
		return wrapN(fmt.Sprintf("(* %s %s)", a(0), a(1)), w)
	case OUDiv:
		q := sgn(fmt.Sprintf("(div %s %s)", uns(a(0), w), uns(a(1), w)), w)
		if t.Args[1].IsConst() && t.Args[1].C != 0 {
			return q
		}
		return fmt.Sprintf("(ite (= %s 0) (- 1) %s)", a(1), q)
	case OURem:
		r := sgn(fmt.Sprintf("(mod %s %s)", uns(a(0), w), uns(a(1), w)), w)
		if t.Args[1].IsConst() && t.Args[1].C != 0 {
			return r
		}
		return fmt.Sprintf("(ite (= %s 0) %s %s)", a(1), a(0), r)
	case OSDiv:
		if t.Args[1].IsConst() && t.Args[1].C != 0 {
			c := sext(t.Args[1].C, w)
			if c > 0 {
				return fmt.Sprintf("(ite (>= %s 0) (div %s %d) (- (div (- %s) %d)))", a(0), a(0), c, a(0), c)
			}
			if c != -c { // negative, not MinInt
				return wrap1(fmt.Sprintf("(ite (>= %s 0) (- (div %s %d)) (div (- %s) %d))", a(0), a(0), -c, a(0), -c), w)
			}
		}
		q := fmt.Sprintf("(ite (>= %s 0) (ite (> %s 0) (div %s %s) (- (div %s (- %s)))) (ite (> %s 0) (- (div (- %s) %s)) (div (- %s) (- %s))))",
			a(0), a(1), a(0), a(1), a(0), a(1), a(1), a(0), a(1), a(0), a(1))
		return fmt.Sprintf("(ite (= %s 0) (ite (< %s 0) 1 (- 1)) %s)", a(1), a(0), wrap1(q, w))
	case OSRem:
		if t.Args[1].IsConst() && t.Args[1].C != 0 {
			c := sext(t.Args[1].C, w)
			if c < 0 && c != -c {
				c = -c
			}
			if c > 0 {
				return fmt.Sprintf("(ite (>= %s 0) (mod %s %d) (- (mod (- %s) %d)))", a(0), a(0), c, a(0), c)
			}
		}
		r := fmt.Sprintf("(ite (>= %s 0) (mod %s (abs %s)) (- (mod (- %s) (abs %s))))", a(0), a(0), a(1), a(0), a(1))
		return fmt.Sprintf("(ite (= %s 0) %s %s)", a(1), a(0), r)
	case OShl:
		if t.Args[1].IsConst() {
			k := t.Args[1].C
			if k >= uint64(w) {
				return "0"
			}
			return wrapN(fmt.Sprintf("(* %s %s)", a(0), pow2(int(k))), w)
		}
	case OLShr:
		if t.Args[1].IsConst() {
			k := t.Args[1].C
			if k >= uint64(w) {
				return "0"
			}
			return sgn(fmt.Sprintf("(div %s %s)", uns(a(0), w), pow2(int(k))), w)
		}
	case OAShr:
		if t.Args[1].IsConst() {
			k := t.Args[1].C
			if k >= uint64(w) {
				k = uint64(w) - 1
			}
			return fmt.Sprintf("(div %s %s)", a(0), pow2(int(k)))
		}
	case OBAnd:
		if t.Args[1].IsConst() && t.Args[1].C != 0 {
			// mask = one contiguous run of ones, bits lo..hi: ((U(x) div 2^lo) mod 2^(hi-lo+1)) * 2^lo
			c := t.Args[1].C
			lo := 0
			for (c>>uint(lo))&1 == 0 {
				lo++
			}
			hi := lo
			for hi+1 < 64 && (c>>uint(hi+1))&1 == 1 {
				hi++
			}
			run := uint64(0)
			for b := lo; b <= hi; b++ {
				run |= 1 << uint(b)
			}
			if run == c && lo > 0 && hi < w {
				return sgn(fmt.Sprintf("(* (mod (div %s %s) %s) %s)", uns(a(0), w), pow2(lo), pow2(hi-lo+1), pow2(lo)), w)
			}
		}
		if t.Args[1].IsConst() {
			c := t.Args[1].C
			if c&(c+1) == 0 && c != 0 { // 2^k-1
				k := 0
				for (c>>uint(k))&1 == 1 && k < 64 {
					k++
				}
				if k < w {
					return fmt.Sprintf("(mod %s %s)", a(0), pow2(k))
				}
			}
		}
	case OExtract:
		hi, lo := t.P1, t.P2
		k := hi - lo + 1
		x := a(0)
		if lo > 0 {
			x = fmt.Sprintf("(div %s %s)", x, pow2(lo))
		}
		return sgn(fmt.Sprintf("(mod %s %s)", x, pow2(k)), k)
	case OZExt:
		return uns(a(0), t.Args[0].Sort.W)
	case OSExt:
		return a(0)
	case OConcat:
		wl := t.Args[1].Sort.W
		return sgn(fmt.Sprintf("(+ (* %s %s) %s)", uns(a(0), t.Args[0].Sort.W), pow2(wl), uns(a(1), wl)), w)
	case OUF:
		return wrapN(ufInt(t), w)
	case OFPToSInt:
		return ofBV(fmt.Sprintf("((_ fp.to_sbv %d) RTZ %s)", t.P1, a(0)), w)
	case OFPToUInt:
		return ofBV(fmt.Sprintf("((_ fp.to_ubv %d) RTZ %s)", t.P1, a(0)), w)
	case OFPToBits:
		panic("sym.BodyInt: OFPToBits")
	}
	// generic fall-back through bit-vectors
	switch t.Op {
	case OBAnd, OBOr, OBXor, OShl, OLShr, OAShr:
		return ofBV(fmt.Sprintf("(%s %s %s)", opName[t.Op], toBV(a(0), w), toBV(a(1), w)), w)
	}
	panic(fmt.Sprintf("sym.BodyInt: op %d", t.Op))
}

func ufInt(t *Term) string {
	if len(t.Args) == 0 {
		return t.Name
	}
	var sb strings.Builder
	sb.WriteString("(" + t.Name)
	for _, x := range t.Args {
		sb.WriteString(" ")
		sb.WriteString(RefInt(x))
	}
	sb.WriteString(")")
	return sb.String()
}
