// Package sym: SMT terms (bit-vectors, booleans, uninterpreted functions) with eager
// constant folding. Terms are interned per Factory so shared sub-terms print once.
package sym

import (
	"fmt"
	"math/bits"
	"strings"
)

type Kind uint8

const (
	KBool Kind = iota
	KBV
	KFP // FloatingPoint 11 53
)

type Sort struct {
	K Kind
	W int
}

var Bool = Sort{KBool, 0}
var FP64 = Sort{KFP, 64}

func BV(w int) Sort { return Sort{KBV, w} }

func (s Sort) SMT() string {
	switch s.K {
	case KBool:
		return "Bool"
	case KFP:
		return "(_ FloatingPoint 11 53)"
	}
	return fmt.Sprintf("(_ BitVec %d)", s.W)
}

type Op uint8

const (
	OConst Op = iota
	OVar
	ONot
	OAnd
	OOr
	OIte
	OEq
	OAdd
	OSub
	OMul
	OUDiv
	OURem
	OSDiv
	OSRem
	OBAnd
	OBOr
	OBXor
	OShl
	OLShr
	OAShr
	ONeg
	OBNot
	OULT
	OULE
	OSLT
	OSLE
	OExtract // P1=hi P2=lo
	OZExt    // P1=extra bits
	OSExt
	OConcat
	OUF // Name, args
	// floating point (ieee mode)
	OFPOfBits // bv64 -> fp
	OFPToBits // fp -> bv64 (via fresh var constraint; printed as UF-free helper)
	OFPAdd
	OFPSub
	OFPMul
	OFPDiv
	OFPLt
	OFPLe
	OFPEq
	OFPNeg
	OFPIsNaN
	OFPFromSInt // bv -> fp (RNE)
	OFPFromUInt
	OFPToSInt // fp -> bv (RTZ), P1=width
	OFPToUInt
	OFPRoundCeil
	OFPRoundFloor
	OFPRoundTrunc
)

var opName = map[Op]string{
	ONot: "not", OAnd: "and", OOr: "or", OIte: "ite", OEq: "=",
	OAdd: "bvadd", OSub: "bvsub", OMul: "bvmul", OUDiv: "bvudiv", OURem: "bvurem",
	OSDiv: "bvsdiv", OSRem: "bvsrem", OBAnd: "bvand", OBOr: "bvor", OBXor: "bvxor",
	OShl: "bvshl", OLShr: "bvlshr", OAShr: "bvashr", ONeg: "bvneg", OBNot: "bvnot",
	OULT: "bvult", OULE: "bvule", OSLT: "bvslt", OSLE: "bvsle", OConcat: "concat",
	OFPAdd: "fp.add RNE", OFPSub: "fp.sub RNE", OFPMul: "fp.mul RNE", OFPDiv: "fp.div RNE",
	OFPLt: "fp.lt", OFPLe: "fp.leq", OFPEq: "fp.eq", OFPNeg: "fp.neg", OFPIsNaN: "fp.isNaN",
	OFPRoundCeil: "fp.roundToIntegral RTP", OFPRoundFloor: "fp.roundToIntegral RTN", OFPRoundTrunc: "fp.roundToIntegral RTZ",
}

type Term struct {
	ID     int
	Op     Op
	Sort   Sort
	Args   []*Term
	C      uint64
	Name   string
	P1, P2 int
}

func (t *Term) IsConst() bool { return t.Op == OConst }
func (t *Term) IsTrue() bool  { return t.Op == OConst && t.Sort.K == KBool && t.C == 1 }
func (t *Term) IsFalse() bool { return t.Op == OConst && t.Sort.K == KBool && t.C == 0 }

// Int64 returns the sign-extended constant.
func (t *Term) Int64() int64 {
	w := t.Sort.W
	if w >= 64 || w == 0 {
		return int64(t.C)
	}
	return int64(t.C<<(64-uint(w))) >> (64 - uint(w))
}

type Factory struct {
	tab    map[string]*Term
	next   int
	Vars   []*Term // declared variables in creation order
	varIdx map[string]*Term
	UFs    map[string]UFSig
	UFOrd  []string
	// UF applications, for functional consistency (solver handles UF natively; kept for model output)
}

type UFSig struct {
	Args []Sort
	Ret  Sort
}

func NewFactory() *Factory {
	return &Factory{tab: map[string]*Term{}, varIdx: map[string]*Term{}, UFs: map[string]UFSig{}}
}

func mask(w int) uint64 {
	if w >= 64 {
		return ^uint64(0)
	}
	return (uint64(1) << uint(w)) - 1
}

func (f *Factory) intern(t *Term) *Term {
	var sb strings.Builder
	fmt.Fprintf(&sb, "%d/%d.%d/%d.%d/%x/%s", t.Op, t.Sort.K, t.Sort.W, t.P1, t.P2, t.C, t.Name)
	for _, a := range t.Args {
		fmt.Fprintf(&sb, ",%d", a.ID)
	}
	k := sb.String()
	if o, ok := f.tab[k]; ok {
		return o
	}
	f.next++
	t.ID = f.next
	f.tab[k] = t
	return t
}

func (f *Factory) Const(s Sort, c uint64) *Term {
	if s.K == KBV {
		c &= mask(s.W)
	}
	return f.intern(&Term{Op: OConst, Sort: s, C: c})
}
func (f *Factory) BoolC(b bool) *Term {
	if b {
		return f.Const(Bool, 1)
	}
	return f.Const(Bool, 0)
}
func (f *Factory) True() *Term  { return f.Const(Bool, 1) }
func (f *Factory) False() *Term { return f.Const(Bool, 0) }

func (f *Factory) Var(name string, s Sort) *Term {
	if v, ok := f.varIdx[name]; ok {
		if v.Sort != s {
			panic("sym: variable redeclared with other sort: " + name)
		}
		return v
	}
	v := f.intern(&Term{Op: OVar, Sort: s, Name: name})
	f.varIdx[name] = v
	f.Vars = append(f.Vars, v)
	return v
}

func (f *Factory) HasVar(name string) bool { _, ok := f.varIdx[name]; return ok }

func (f *Factory) UF(name string, ret Sort, args ...*Term) *Term {
	if _, ok := f.UFs[name]; !ok {
		sig := UFSig{Ret: ret}
		for _, a := range args {
			sig.Args = append(sig.Args, a.Sort)
		}
		f.UFs[name] = sig
		f.UFOrd = append(f.UFOrd, name)
	}
	return f.intern(&Term{Op: OUF, Sort: ret, Name: name, Args: args})
}

func (f *Factory) mk(op Op, s Sort, args ...*Term) *Term {
	return f.intern(&Term{Op: op, Sort: s, Args: args})
}

// ---------- boolean ----------

func (f *Factory) Not(a *Term) *Term {
	if a.IsConst() {
		return f.BoolC(a.C == 0)
	}
	if a.Op == ONot {
		return a.Args[0]
	}
	return f.mk(ONot, Bool, a)
}

func (f *Factory) And(a, b *Term) *Term {
	if a.IsConst() {
		if a.C == 0 {
			return a
		}
		return b
	}
	if b.IsConst() {
		if b.C == 0 {
			return b
		}
		return a
	}
	if a == b {
		return a
	}
	return f.mk(OAnd, Bool, a, b)
}

func (f *Factory) Or(a, b *Term) *Term {
	if a.IsConst() {
		if a.C == 1 {
			return a
		}
		return b
	}
	if b.IsConst() {
		if b.C == 1 {
			return b
		}
		return a
	}
	if a == b {
		return a
	}
	return f.mk(OOr, Bool, a, b)
}

func (f *Factory) Ite(c, a, b *Term) *Term {
	if c.IsConst() {
		if c.C == 1 {
			return a
		}
		return b
	}
	if a == b {
		return a
	}
	if a.Sort.K == KBool && a.IsConst() && b.IsConst() {
		if a.C == 1 {
			return c
		}
		return f.Not(c)
	}
	return f.mk(OIte, a.Sort, c, a, b)
}

func (f *Factory) Eq(a, b *Term) *Term {
	if a.Sort != b.Sort {
		panic(fmt.Sprintf("sym.Eq: sort mismatch %v %v", a.Sort, b.Sort))
	}
	if a == b && a.Sort.K != KFP {
		return f.True()
	}
	if a.IsConst() && b.IsConst() {
		return f.BoolC(a.C == b.C)
	}
	if a.Sort.K == KBool {
		if a.IsConst() {
			if a.C == 1 {
				return b
			}
			return f.Not(b)
		}
		if b.IsConst() {
			if b.C == 1 {
				return a
			}
			return f.Not(a)
		}
	}
	if a.ID > b.ID {
		a, b = b, a
	}
	return f.mk(OEq, Bool, a, b)
}

// ---------- bit-vector ----------

func sext(c uint64, w int) int64 {
	if w >= 64 {
		return int64(c)
	}
	return int64(c<<(64-uint(w))) >> (64 - uint(w))
}

func (f *Factory) Bin(op Op, a, b *Term) *Term {
	if a.Sort != b.Sort {
		panic(fmt.Sprintf("sym.Bin %s: sort mismatch %v %v", opName[op], a.Sort, b.Sort))
	}
	w := a.Sort.W
	if a.IsConst() && b.IsConst() {
		x, y := a.C, b.C
		sx, sy := sext(x, w), sext(y, w)
		switch op {
		case OAdd:
			return f.Const(a.Sort, x+y)
		case OSub:
			return f.Const(a.Sort, x-y)
		case OMul:
			return f.Const(a.Sort, x*y)
		case OUDiv:
			if y == 0 {
				return f.Const(a.Sort, mask(w))
			}
			return f.Const(a.Sort, x/y)
		case OURem:
			if y == 0 {
				return a
			}
			return f.Const(a.Sort, x%y)
		case OSDiv:
			if y == 0 {
				if sx < 0 {
					return f.Const(a.Sort, 1)
				}
				return f.Const(a.Sort, mask(w))
			}
			if sy == -1 {
				return f.Const(a.Sort, uint64(-sx))
			}
			return f.Const(a.Sort, uint64(sx/sy))
		case OSRem:
			if y == 0 {
				return a
			}
			if sy == -1 {
				return f.Const(a.Sort, 0)
			}
			return f.Const(a.Sort, uint64(sx%sy))
		case OBAnd:
			return f.Const(a.Sort, x&y)
		case OBOr:
			return f.Const(a.Sort, x|y)
		case OBXor:
			return f.Const(a.Sort, x^y)
		case OShl:
			if y >= uint64(w) {
				return f.Const(a.Sort, 0)
			}
			return f.Const(a.Sort, x<<y)
		case OLShr:
			if y >= uint64(w) {
				return f.Const(a.Sort, 0)
			}
			return f.Const(a.Sort, x>>y)
		case OAShr:
			if y >= uint64(w) {
				y = uint64(w) - 1
			}
			return f.Const(a.Sort, uint64(sx>>y))
		case OULT:
			return f.BoolC(x < y)
		case OULE:
			return f.BoolC(x <= y)
		case OSLT:
			return f.BoolC(sx < sy)
		case OSLE:
			return f.BoolC(sx <= sy)
		}
	}
	rs := a.Sort
	switch op {
	case OULT, OULE, OSLT, OSLE:
		rs = Bool
		if a == b {
			return f.BoolC(op == OULE || op == OSLE)
		}
	case OAdd:
		if a.IsConst() && a.C == 0 {
			return b
		}
		if b.IsConst() && b.C == 0 {
			return a
		}
		// (x + c1) + c2
		if b.IsConst() && a.Op == OAdd && a.Args[1].IsConst() {
			return f.Bin(OAdd, a.Args[0], f.Const(a.Sort, a.Args[1].C+b.C))
		}
		if a.IsConst() {
			a, b = b, a
		}
	case OSub:
		if b.IsConst() && b.C == 0 {
			return a
		}
		if a == b {
			return f.Const(a.Sort, 0)
		}
		if b.IsConst() {
			return f.Bin(OAdd, a, f.Const(a.Sort, -b.C))
		}
	case OMul:
		if a.IsConst() {
			a, b = b, a
		}
		if b.IsConst() {
			if b.C == 0 {
				return b
			}
			if b.C == 1 {
				return a
			}
		}
	case OBAnd:
		if a == b {
			return a
		}
		if a.IsConst() {
			a, b = b, a
		}
		if b.IsConst() {
			if b.C == 0 {
				return b
			}
			if b.C == mask(w) {
				return a
			}
			// (x & y) & bit  ==  both x and y have the bit ? bit : 0   (keeps symbolic-by-symbolic bvand away
			// from the solver, e.g. time.Time's wall&u.wall&hasMonotonic)
			if b.C&(b.C-1) == 0 && a.Op == OBAnd && !a.Args[0].IsConst() && !a.Args[1].IsConst() {
				zero := f.Const(a.Sort, 0)
				x := f.Not(f.Eq(f.Bin(OBAnd, a.Args[0], b), zero))
				y := f.Not(f.Eq(f.Bin(OBAnd, a.Args[1], b), zero))
				return f.Ite(f.And(x, y), b, zero)
			}
		}
	case OBOr:
		if a == b {
			return a
		}
		if a.IsConst() {
			a, b = b, a
		}
		if b.IsConst() {
			if b.C == 0 {
				return a
			}
			if b.C == mask(w) {
				return b
			}
		}
	case OBXor:
		if a == b {
			return f.Const(a.Sort, 0)
		}
		if b.IsConst() && b.C == 0 {
			return a
		}
		if a.IsConst() && a.C == 0 {
			return b
		}
	case OShl, OLShr, OAShr:
		if b.IsConst() && b.C == 0 {
			return a
		}
		if a.IsConst() && a.C == 0 {
			return a
		}
	case OUDiv, OSDiv:
		if b.IsConst() && b.C == 1 {
			return a
		}
	}
	return f.mk(op, rs, a, b)
}

func (f *Factory) Neg(a *Term) *Term {
	if a.IsConst() {
		return f.Const(a.Sort, -a.C)
	}
	return f.mk(ONeg, a.Sort, a)
}
func (f *Factory) BNot(a *Term) *Term {
	if a.IsConst() {
		return f.Const(a.Sort, ^a.C)
	}
	return f.mk(OBNot, a.Sort, a)
}

func (f *Factory) Extract(a *Term, hi, lo int) *Term {
	w := hi - lo + 1
	if lo == 0 && w == a.Sort.W {
		return a
	}
	if a.IsConst() {
		return f.Const(BV(w), a.C>>uint(lo))
	}
	if a.Op == OZExt || a.Op == OSExt {
		inner := a.Args[0]
		if hi < inner.Sort.W {
			return f.Extract(inner, hi, lo)
		}
	}
	if a.Op == OConcat {
		lw := a.Args[1].Sort.W
		if hi < lw {
			return f.Extract(a.Args[1], hi, lo)
		}
		if lo >= lw {
			return f.Extract(a.Args[0], hi-lw, lo-lw)
		}
	}
	t := &Term{Op: OExtract, Sort: BV(w), Args: []*Term{a}, P1: hi, P2: lo}
	return f.intern(t)
}

func (f *Factory) ZExt(a *Term, to int) *Term {
	if to == a.Sort.W {
		return a
	}
	if to < a.Sort.W {
		return f.Extract(a, to-1, 0)
	}
	if a.IsConst() {
		return f.Const(BV(to), a.C)
	}
	return f.intern(&Term{Op: OZExt, Sort: BV(to), Args: []*Term{a}, P1: to - a.Sort.W})
}

func (f *Factory) SExt(a *Term, to int) *Term {
	if to == a.Sort.W {
		return a
	}
	if to < a.Sort.W {
		return f.Extract(a, to-1, 0)
	}
	if a.IsConst() {
		return f.Const(BV(to), uint64(sext(a.C, a.Sort.W)))
	}
	return f.intern(&Term{Op: OSExt, Sort: BV(to), Args: []*Term{a}, P1: to - a.Sort.W})
}

func (f *Factory) Concat(hi, lo *Term) *Term {
	w := hi.Sort.W + lo.Sort.W
	if w > 64 {
		panic("sym.Concat: >64 bits")
	}
	if hi.IsConst() && lo.IsConst() {
		return f.Const(BV(w), hi.C<<uint(lo.Sort.W)|lo.C)
	}
	if hi.IsConst() && hi.C == 0 {
		return f.ZExt(lo, w)
	}
	return f.mk(OConcat, BV(w), hi, lo)
}

// FP helpers (ieee mode)
func (f *Factory) FPUn(op Op, s Sort, a *Term) *Term { return f.mk(op, s, a) }
func (f *Factory) FPBin(op Op, a, b *Term) *Term {
	rs := FP64
	switch op {
	case OFPLt, OFPLe, OFPEq:
		rs = Bool
	}
	return f.mk(op, rs, a, b)
}
func (f *Factory) FPToInt(op Op, a *Term, w int) *Term {
	return f.intern(&Term{Op: op, Sort: BV(w), Args: []*Term{a}, P1: w})
}

// ---------- printing ----------

func constLit(t *Term) string {
	switch t.Sort.K {
	case KBool:
		if t.C == 1 {
			return "true"
		}
		return "false"
	case KBV:
		if t.Sort.W%4 == 0 {
			return fmt.Sprintf("#x%0*x", t.Sort.W/4, t.C)
		}
		return fmt.Sprintf("#b%0*b", t.Sort.W, t.C)
	}
	panic("constLit")
}

// Ref is how a term is referenced from other terms' definitions.
func Ref(t *Term) string {
	switch t.Op {
	case OConst:
		return constLit(t)
	case OVar:
		return t.Name
	}
	return fmt.Sprintf("t%d", t.ID)
}

// Body prints the defining expression of a non-leaf term, using Ref for arguments.
func Body(t *Term) string {
	var sb strings.Builder
	switch t.Op {
	case OExtract:
		fmt.Fprintf(&sb, "((_ extract %d %d) %s)", t.P1, t.P2, Ref(t.Args[0]))
		return sb.String()
	case OZExt:
		fmt.Fprintf(&sb, "((_ zero_extend %d) %s)", t.P1, Ref(t.Args[0]))
		return sb.String()
	case OSExt:
		fmt.Fprintf(&sb, "((_ sign_extend %d) %s)", t.P1, Ref(t.Args[0]))
		return sb.String()
	case OUF:
		if len(t.Args) == 0 {
			return t.Name
		}
		sb.WriteString("(" + t.Name)
	case OFPOfBits:
		return fmt.Sprintf("((_ to_fp 11 53) %s)", Ref(t.Args[0]))
	case OFPFromSInt:
		return fmt.Sprintf("((_ to_fp 11 53) RNE %s)", Ref(t.Args[0]))
	case OFPFromUInt:
		return fmt.Sprintf("((_ to_fp_unsigned 11 53) RNE %s)", Ref(t.Args[0]))
	case OFPToSInt:
		return fmt.Sprintf("((_ fp.to_sbv %d) RTZ %s)", t.P1, Ref(t.Args[0]))
	case OFPToUInt:
		return fmt.Sprintf("((_ fp.to_ubv %d) RTZ %s)", t.P1, Ref(t.Args[0]))
	default:
		n, ok := opName[t.Op]
		if !ok {
			panic(fmt.Sprintf("sym.Body: op %d", t.Op))
		}
		sb.WriteString("(" + n)
	}
	for _, a := range t.Args {
		sb.WriteString(" ")
		sb.WriteString(Ref(a))
	}
	sb.WriteString(")")
	return sb.String()
}

// Eval evaluates t under an assignment of variables (missing = 0). UF and FP are not evaluated.
func Eval(t *Term, env map[string]uint64, memo map[int]uint64) (uint64, bool) {
	if v, ok := memo[t.ID]; ok {
		return v, true
	}
	var r uint64
	ok := true
	w := t.Sort.W
	arg := func(i int) uint64 {
		v, o := Eval(t.Args[i], env, memo)
		if !o {
			ok = false
		}
		return v
	}
	b2u := func(b bool) uint64 {
		if b {
			return 1
		}
		return 0
	}
	switch t.Op {
	case OConst:
		r = t.C
	case OVar:
		r = env[t.Name]
	case ONot:
		r = 1 - arg(0)
	case OAnd:
		r = arg(0) & arg(1)
	case OOr:
		r = arg(0) | arg(1)
	case OIte:
		if arg(0) == 1 {
			r = arg(1)
		} else {
			r = arg(2)
		}
	case OEq:
		r = b2u(arg(0) == arg(1))
	case OAdd:
		r = arg(0) + arg(1)
	case OSub:
		r = arg(0) - arg(1)
	case OMul:
		r = arg(0) * arg(1)
	case OBAnd:
		r = arg(0) & arg(1)
	case OBOr:
		r = arg(0) | arg(1)
	case OBXor:
		r = arg(0) ^ arg(1)
	case ONeg:
		r = -arg(0)
	case OBNot:
		r = ^arg(0)
	case OULT:
		r = b2u(arg(0) < arg(1))
	case OULE:
		r = b2u(arg(0) <= arg(1))
	case OSLT:
		aw := t.Args[0].Sort.W
		r = b2u(sext(arg(0), aw) < sext(arg(1), aw))
	case OSLE:
		aw := t.Args[0].Sort.W
		r = b2u(sext(arg(0), aw) <= sext(arg(1), aw))
	case OExtract:
		r = arg(0) >> uint(t.P2)
		w = t.P1 - t.P2 + 1
	case OZExt:
		r = arg(0)
	case OSExt:
		r = uint64(sext(arg(0), t.Args[0].Sort.W))
	case OConcat:
		r = arg(0)<<uint(t.Args[1].Sort.W) | arg(1)
	default:
		return 0, false
	}
	if !ok {
		return 0, false
	}
	if t.Sort.K == KBV {
		r &= mask(w)
	}
	memo[t.ID] = r
	return r, true
}

var _ = bits.Len
