// Package solver: long-lived SMT-LIB2 solver processes with per-path scopes.
package solver

import (
	"bufio"
	"fmt"
	"io"
	"os"
	"os/exec"
	"strconv"
	"strings"
	"sync/atomic"
	"time"

	"verif/engine/sym"
)

type Result int

const (
	Unsat Result = iota
	Sat
	Unknown
)

var dumpCounter int64

func (r Result) String() string { return [...]string{"unsat", "sat", "unknown"}[r] }

type Stats struct {
	Queries   int64
	Sat       int64
	Unsat     int64
	Unknown   int64
	Errors    int64
	TimeNanos int64
	Portfolio int64
	Restarts  int64
}

var Global Stats

type Solver struct {
	name    string
	argv    []string
	cmd     *exec.Cmd
	in      io.WriteCloser
	out     *bufio.Reader
	defined map[int]bool
	decl    map[string]bool
	// script log of the current path (declarations, definitions, assertions) for portfolio use
	script  []string
	timeout int
	Trace   io.Writer
	dead    bool
	keepForModel bool
	lines   chan string
	IntMode bool // print bit-vectors as exact signed integers (sym/intmode.go)
}

func Argv(name string) []string {
	switch name {
	case "z3":
		return []string{"z3", "-in"}
	case "z3-new":
		return []string{"z3-new", "-in"}
	case "cvc5":
		return []string{"cvc5", "--incremental", "--lang=smt2", "--fp-exp"}
	case "cvc5-int":
		return []string{"cvc5", "--incremental", "--lang=smt2", "--solve-bv-as-int=sum"}
	}
	panic("unknown solver " + name)
}

func New(name string) *Solver {
	s := &Solver{name: name, argv: Argv(name)}
	s.start()
	return s
}

func (s *Solver) start() {
	s.cmd = exec.Command(s.argv[0], s.argv[1:]...)
	var err error
	s.in, err = s.cmd.StdinPipe()
	if err != nil {
		panic(err)
	}
	op, err := s.cmd.StdoutPipe()
	if err != nil {
		panic(err)
	}
	s.cmd.Stderr = os.Stderr
	if err := s.cmd.Start(); err != nil {
		panic(err)
	}
	s.out = bufio.NewReaderSize(op, 1<<16)
	s.lines = make(chan string, 256)
	go func(r *bufio.Reader, ch chan string) {
		for {
			line, err := r.ReadString('\n')
			if err != nil {
				close(ch)
				return
			}
			ch <- line
		}
	}(s.out, s.lines)
	s.defined = map[int]bool{}
	s.decl = map[string]bool{}
	s.script = nil
	s.timeout = -1
	s.dead = false
	s.send("(set-option :print-success false)")
	s.send("(set-option :produce-models true)")
	if strings.HasPrefix(s.name, "cvc5") {
		s.send("(set-logic ALL)")
	}
	s.send("(push 1)")
}

func (s *Solver) Close() {
	if s.cmd != nil {
		s.in.Close()
		s.cmd.Process.Kill()
		s.cmd.Wait()
		s.cmd = nil
	}
}

func (s *Solver) send(line string) {
	if s.Trace != nil {
		fmt.Fprintln(s.Trace, line)
	}
	if _, err := io.WriteString(s.in, line+"\n"); err != nil {
		s.dead = true
	}
}

// NewPath drops everything asserted on the previous path.
func (s *Solver) NewPath() {
	if s.dead {
		s.Close()
		s.start()
		return
	}
	s.send("(pop 1)")
	s.send("(push 1)")
	s.defined = map[int]bool{}
	s.decl = map[string]bool{}
	s.script = s.script[:0]
}

func (s *Solver) emit(line string) {
	s.script = append(s.script, line)
	s.send(line)
}

func (s *Solver) declareVar(t *sym.Term) {
	if s.decl[t.Name] {
		return
	}
	s.decl[t.Name] = true
	if s.IntMode && t.Sort.K == sym.KBV {
		s.emit(fmt.Sprintf("(declare-const %s Int)", t.Name))
		s.emit("(assert " + sym.RangeInt(t.Name, t.Sort.W) + ")")
		return
	}
	s.emit(fmt.Sprintf("(declare-const %s %s)", t.Name, t.Sort.SMT()))
}

func (s *Solver) ref(t *sym.Term) string {
	if s.IntMode {
		return sym.RefInt(t)
	}
	return sym.Ref(t)
}

// define makes sure t and its sub-terms have definitions in the current scope.
func (s *Solver) define(f *sym.Factory, t *sym.Term) {
	switch t.Op {
	case sym.OConst:
		return
	case sym.OVar:
		s.declareVar(t)
		return
	}
	if s.defined[t.ID] {
		return
	}
	// iterative post-order to avoid deep recursion
	type fr struct {
		t *sym.Term
		i int
	}
	st := []fr{{t, 0}}
	for len(st) > 0 {
		top := &st[len(st)-1]
		if top.i < len(top.t.Args) {
			a := top.t.Args[top.i]
			top.i++
			if a.Op == sym.OConst {
				continue
			}
			if a.Op == sym.OVar {
				s.declareVar(a)
				continue
			}
			if !s.defined[a.ID] {
				st = append(st, fr{a, 0})
			}
			continue
		}
		x := top.t
		st = st[:len(st)-1]
		if s.defined[x.ID] {
			continue
		}
		s.defined[x.ID] = true
		if x.Op == sym.OUF {
			key := "uf:" + x.Name
			if !s.decl[key] {
				s.decl[key] = true
				sig := f.UFs[x.Name]
				var as []string
				for _, a := range sig.Args {
					if s.IntMode {
						as = append(as, a.SMTInt())
					} else {
						as = append(as, a.SMT())
					}
				}
				if s.IntMode {
					s.emit(fmt.Sprintf("(declare-fun %s (%s) %s)", x.Name, strings.Join(as, " "), sig.Ret.SMTInt()))
				} else {
					s.emit(fmt.Sprintf("(declare-fun %s (%s) %s)", x.Name, strings.Join(as, " "), sig.Ret.SMT()))
				}
			}
		}
		if s.IntMode {
			s.emit(fmt.Sprintf("(define-fun t%d () %s %s)", x.ID, x.Sort.SMTInt(), sym.BodyInt(x)))
		} else {
			s.emit(fmt.Sprintf("(define-fun t%d () %s %s)", x.ID, x.Sort.SMT(), sym.Body(x)))
		}
	}
}

// Assert adds t to the path condition.
func (s *Solver) Assert(f *sym.Factory, t *sym.Term) {
	s.define(f, t)
	s.emit("(assert " + s.ref(t) + ")")
}

func (s *Solver) setTimeout(ms int) {
	if ms == s.timeout {
		return
	}
	s.timeout = ms
	if strings.HasPrefix(s.name, "cvc5") {
		s.send(fmt.Sprintf("(set-option :tlimit-per %d)", ms))
	} else {
		s.send(fmt.Sprintf("(set-option :timeout %d)", ms))
	}
}

func (s *Solver) readLine() (string, bool) {
	d := time.Duration(s.timeout)*time.Millisecond + 10*time.Second
	if s.timeout <= 0 {
		d = 120 * time.Second
	}
	select {
	case line, ok := <-s.lines:
		if !ok {
			s.dead = true
			return "", false
		}
		return strings.TrimSpace(line), true
	case <-time.After(d):
		// the solver ignores its own time limit: give up on this process
		s.dead = true
		return "", false
	}
}

// revive restarts a dead or confused solver process and re-establishes the current path scope.
func (s *Solver) revive() {
	script := append([]string(nil), s.script...)
	defined, decl := s.defined, s.decl
	s.Close()
	s.start()
	s.defined, s.decl = defined, decl
	s.script = script
	for _, l := range script {
		s.send(l)
	}
	atomic.AddInt64(&Global.Restarts, 1)
}

// Check decides path-condition ∧ extra (extra may be nil).
func (s *Solver) Check(f *sym.Factory, extra *sym.Term, timeoutMs int) Result {
	t0 := time.Now()
	atomic.AddInt64(&Global.Queries, 1)
	defer func() { atomic.AddInt64(&Global.TimeNanos, int64(time.Since(t0))) }()
	if s.dead {
		s.revive()
	}
	s.setTimeout(timeoutMs)
	if extra != nil {
		s.define(f, extra)
		s.send("(push 1)")
		s.send("(assert " + s.ref(extra) + ")")
	}
	if d := os.Getenv("GOSYM_DUMP_ALL"); d != "" {
		n := atomic.AddInt64(&dumpCounter, 1)
		if n <= 3000 {
			os.WriteFile(fmt.Sprintf("%s/q-%d.smt2", d, n), []byte(s.Script(f, extra)), 0o644)
		}
	}
	s.send("(check-sat)")
	res := Unknown
	sawError := false
	for {
		line, ok := s.readLine()
		if !ok {
			break
		}
		if line == "" {
			continue
		}
		if strings.HasPrefix(line, "(error") {
			atomic.AddInt64(&Global.Errors, 1)
			if os.Getenv("GOSYM_DEBUG") != "" {
				fmt.Fprintf(os.Stderr, "solver %s: %s\n", s.name, line)
			}
			sawError = true
			// keep reading: the check-sat answer still follows
			continue
		}
		switch line {
		case "sat":
			res = Sat
		case "unsat":
			res = Unsat
		case "unknown", "timeout":
			res = Unknown
		default:
			fmt.Fprintf(os.Stderr, "solver %s: unexpected output %q\n", s.name, line)
			continue
		}
		break
	}
	if sawError {
		res = Unknown
	}
	if res == Unknown || s.dead {
		if d := os.Getenv("GOSYM_DUMP_UNKNOWN"); d != "" {
			n := atomic.AddInt64(&dumpCounter, 1)
			if n <= 5 {
				os.WriteFile(fmt.Sprintf("%s/unknown-%d.smt2", d, n), []byte(s.Script(f, extra)), 0o644)
			}
		}
		// a timed-out incremental z3 is not trustworthy afterwards: start afresh at the path scope
		s.revive()
		atomic.AddInt64(&Global.Unknown, 1)
		return Unknown
	}
	if extra != nil && !(res == Sat && s.keepForModel) {
		s.send("(pop 1)")
	}
	switch res {
	case Sat:
		atomic.AddInt64(&Global.Sat, 1)
	case Unsat:
		atomic.AddInt64(&Global.Unsat, 1)
	default:
		atomic.AddInt64(&Global.Unknown, 1)
	}
	return res
}

// CheckModel is Check followed, on sat, by model extraction for vars.
func (s *Solver) CheckModel(f *sym.Factory, extra *sym.Term, timeoutMs int, vars []*sym.Term) (Result, map[string]uint64) {
	s.keepForModel = true
	r := s.Check(f, extra, timeoutMs)
	s.keepForModel = false
	if r != Sat {
		return r, nil
	}
	m := s.model(vars)
	if extra != nil {
		s.send("(pop 1)")
	}
	return r, m
}

func (s *Solver) model(vars []*sym.Term) map[string]uint64 {
	m := map[string]uint64{}
	var names []string
	for _, v := range vars {
		if s.decl[v.Name] && v.Sort.K != sym.KFP {
			names = append(names, v.Name)
		}
	}
	if len(names) == 0 {
		return m
	}
	s.send("(get-value (" + strings.Join(names, " ") + "))")
	// read balanced s-expression
	var sb strings.Builder
	depth := 0
	started := false
	for {
		line, ok := s.readLine()
		if !ok {
			return m
		}
		sb.WriteString(line)
		sb.WriteString(" ")
		for _, c := range line {
			if c == '(' {
				depth++
				started = true
			} else if c == ')' {
				depth--
			}
		}
		if started && depth <= 0 {
			break
		}
	}
	parseModel(sb.String(), m)
	return m
}

func parseModel(txt string, m map[string]uint64) {
	// tokens: ( ( name value ) ... ) where value is #x.., #b.., true, false, (_ bvN W)
	txt = strings.ReplaceAll(txt, "(", " ( ")
	txt = strings.ReplaceAll(txt, ")", " ) ")
	tok := strings.Fields(txt)
	i := 0
	for i < len(tok) {
		if tok[i] == "(" && i+2 < len(tok) && tok[i+1] != "(" && tok[i+1] != "_" {
			name := tok[i+1]
			v := tok[i+2]
			switch {
			case strings.HasPrefix(v, "#x"):
				u, _ := strconv.ParseUint(v[2:], 16, 64)
				m[name] = u
				i += 3
				continue
			case strings.HasPrefix(v, "#b"):
				u, _ := strconv.ParseUint(v[2:], 2, 64)
				m[name] = u
				i += 3
				continue
			case v == "true":
				m[name] = 1
				i += 3
				continue
			case len(v) > 0 && v[0] >= '0' && v[0] <= '9':
				u, _ := strconv.ParseUint(v, 10, 64)
				m[name] = u
				i += 3
				continue
			case v == "(" && i+4 < len(tok) && tok[i+3] == "-":
				u, _ := strconv.ParseUint(tok[i+4], 10, 64)
				m[name] = -u
				i += 5
				continue
			case v == "false":
				m[name] = 0
				i += 3
				continue
			case v == "(" && i+4 < len(tok) && tok[i+3] == "_" && strings.HasPrefix(tok[i+4], "bv"):
				u, _ := strconv.ParseUint(tok[i+4][2:], 10, 64)
				m[name] = u
				i += 5
				continue
			}
		}
		i++
	}
}

// Script returns a stand-alone SMT-LIB2 script for path-condition ∧ extra.
func (s *Solver) Script(f *sym.Factory, extra *sym.Term) string {
	var sb strings.Builder
	sb.WriteString("(set-logic ALL)\n")
	if extra != nil {
		s.define(f, extra)
	}
	for _, l := range s.script {
		sb.WriteString(l)
		sb.WriteString("\n")
	}
	if extra != nil {
		sb.WriteString("(assert " + s.ref(extra) + ")\n")
	}
	sb.WriteString("(check-sat)\n")
	return sb.String()
}

// Portfolio races fresh solver processes on a stand-alone script.
func Portfolio(script string, names []string, timeout time.Duration) (Result, string) {
	atomic.AddInt64(&Global.Portfolio, 1)
	t0 := time.Now()
	defer func() { atomic.AddInt64(&Global.TimeNanos, int64(time.Since(t0))) }()
	type ans struct {
		r    Result
		name string
	}
	ch := make(chan ans, len(names))
	var cmds []*exec.Cmd
	for _, n := range names {
		argv := Argv(n)
		var args []string
		for _, a := range argv[1:] {
			if a == "--incremental" {
				continue
			}
			args = append(args, a)
		}
		cmd := exec.Command(argv[0], args...)
		cmd.Stdin = strings.NewReader(script)
		cmds = append(cmds, cmd)
		go func(n string, cmd *exec.Cmd) {
			out, _ := cmd.Output()
			txt := string(out)
			r := Unknown
			if !strings.Contains(txt, "(error") {
				for _, l := range strings.Split(txt, "\n") {
					l = strings.TrimSpace(l)
					if l == "sat" {
						r = Sat
					} else if l == "unsat" {
						r = Unsat
					}
				}
			}
			ch <- ans{r, n}
		}(n, cmd)
	}
	res, who := Unknown, ""
	timer := time.After(timeout)
	got := 0
loop:
	for got < len(names) {
		select {
		case a := <-ch:
			got++
			if a.r != Unknown {
				res, who = a.r, a.name
				break loop
			}
		case <-timer:
			break loop
		}
	}
	for _, c := range cmds {
		if c.Process != nil {
			c.Process.Kill()
		}
	}
	return res, who
}
