package main

import (
	"encoding/json"
	"flag"
	"fmt"
	"os"
	"runtime"

	"verif/engine/exec"
)

func main() {
	if len(os.Args) < 2 {
		fmt.Fprintln(os.Stderr, "usage: gosym run|replay ...")
		os.Exit(3)
	}
	switch os.Args[1] {
	case "run":
		os.Exit(run(os.Args[2:]))
	case "replay":
		os.Exit(replay(os.Args[2:]))
	default:
		fmt.Fprintln(os.Stderr, "unknown command", os.Args[1])
		os.Exit(3)
	}
}

func run(args []string) int {
	fs := flag.NewFlagSet("run", flag.ExitOnError)
	specPath := fs.String("spec", "", "spec file")
	tier := fs.String("tier", "quick", "quick|thorough")
	only := fs.String("only", "", "run only this harness entry")
	workers := fs.Int("workers", runtime.NumCPU(), "parallel workers")
	root := fs.String("root", "/verif", "verif root")
	evidence := fs.String("evidence", "", "evidence file to write")
	noReplay := fs.Bool("no-replay", false, "skip native replay")
	seed := fs.Int64("seed", 0, "seed")
	fs.Parse(args)
	b, err := os.ReadFile(*specPath)
	if err != nil {
		fmt.Fprintln(os.Stderr, err)
		return 3
	}
	var spec exec.Spec
	if err := json.Unmarshal(b, &spec); err != nil {
		fmt.Fprintln(os.Stderr, "spec:", err)
		return 3
	}
	return exec.Main(&spec, exec.Options{Tier: *tier, Only: *only, Workers: *workers, Root: *root, Evidence: *evidence, NoReplay: *noReplay, Seed: *seed})
}

func replay(args []string) int {
	fs := flag.NewFlagSet("replay", flag.ExitOnError)
	root := fs.String("root", "/verif", "verif root")
	file := fs.String("file", "", "replay file")
	fs.Parse(args)
	return exec.ReplayMain(*root, *file)
}
