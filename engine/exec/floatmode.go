package exec

import (
	"go/token"
	"math"

	"verif/engine/solver"
	"verif/engine/sym"
)

// Float encodings: see DESIGN.md 2.5. Constants are always evaluated natively.

const i53Sentinel = int64(1) << 62

func (m *Machine) floatMode() string { return m.Spec.Float }

func (m *Machine) fromNative(v float64, f32 bool) *FloatV {
	if f32 {
		v = float64(float32(v))
	}
	return &FloatV{Bits: m.bv(64, math.Float64bits(v)), F32: f32}
}

// toI53 gives the int53 representation of x.
func (m *Machine) toI53(x *FloatV) *FloatV {
	if x.I != nil {
		return x
	}
	if x.IsConst() {
		v := x.Const()
		switch {
		case math.IsNaN(v):
			return &FloatV{I: m.i64(0), NaN: m.F.True()}
		case v == math.MaxFloat64 || math.IsInf(v, 1):
			return &FloatV{I: m.i64(i53Sentinel)}
		case v == -math.MaxFloat64 || math.IsInf(v, -1):
			return &FloatV{I: m.i64(-i53Sentinel)}
		case v == math.Trunc(v) && math.Abs(v) <= 1<<53:
			return &FloatV{I: m.i64(int64(v))}
		}
		if math.Abs(v) < 1<<53 {
			// non-integer constant: only ordered against / copied among the integer-valued domain (no arithmetic)
			return &FloatV{I: m.i64(int64(math.Floor(v))), Frac: m.F.True()}
		}
		panic(unsupported("non-integer float constant meets a symbolic float in int53 mode"))
	}
	panic(unsupported("float without int53 representation"))
}

func (m *Machine) fracOf(x *FloatV) *sym.Term {
	if x.Frac == nil {
		return m.F.False()
	}
	return x.Frac
}

func (m *Machine) noFrac(x *FloatV, what string) {
	if x.Frac != nil && !x.Frac.IsFalse() {
		if x.Frac.IsTrue() || m.feasible(x.Frac) != solver.Unsat {
			panic(unsupported(what + " on a non-integer float in int53 mode"))
		}
	}
}

func (m *Machine) nanOf(x *FloatV) *sym.Term {
	if x.NaN == nil {
		return m.F.False()
	}
	return x.NaN
}

// i53Range checks (does not assume) that a non-NaN result stays exactly representable.
func (m *Machine) i53Range(r *FloatV) {
	if m.inPrefix() || r.I.IsConst() {
		return
	}
	// the path condition only grows: a range fact proven once stays valid on this path
	if m.i53ok == nil {
		m.i53ok = map[int]bool{}
	}
	if m.i53ok[r.I.ID] {
		return
	}
	defer func() { m.i53ok[r.I.ID] = true }()
	lim := int64(1) << 53
	ok := m.F.And(m.F.Bin(sym.OSLE, m.i64(-lim), r.I), m.F.Bin(sym.OSLE, r.I, m.i64(lim)))
	bad := m.F.And(m.F.Not(m.nanOf(r)), m.F.Not(ok))
	if bad.IsFalse() {
		return
	}
	if res := m.S.Check(m.F, bad, m.Spec.FeasMs*5); res != solver.Unsat {
		panic(pathEnd{"unknown", "int53 range obligation not discharged (result may exceed 2^53)"})
	}
}

func (m *Machine) asFP(x *FloatV) *sym.Term {
	if x.FP != nil {
		return x.FP
	}
	if x.Bits != nil {
		return m.F.FPUn(sym.OFPOfBits, sym.FP64, x.Bits)
	}
	panic(unsupported("float without ieee representation"))
}

func (m *Machine) floatArith(op token.Token, x, y *FloatV) Value {
	if x.IsConst() && y.IsConst() {
		a, b := x.Const(), y.Const()
		var r float64
		switch op {
		case token.ADD:
			r = a + b
		case token.SUB:
			r = a - b
		case token.MUL:
			r = a * b
		case token.QUO:
			r = a / b
		}
		return m.fromNative(r, x.F32)
	}
	if x.F32 || y.F32 {
		panic(unsupported("symbolic float32 arithmetic"))
	}
	switch m.floatMode() {
	case "int53":
		a, b := m.toI53(x), m.toI53(y)
		m.noFrac(a, "arithmetic")
		m.noFrac(b, "arithmetic")
		var r *FloatV
		switch op {
		case token.ADD:
			r = &FloatV{I: m.F.Bin(sym.OAdd, a.I, b.I)}
		case token.SUB:
			r = &FloatV{I: m.F.Bin(sym.OSub, a.I, b.I)}
		default:
			panic(unsupported("float " + op.String() + " in int53 mode"))
		}
		r.NaN = m.F.Or(m.nanOf(a), m.nanOf(b))
		// operands must be finite-range too (sentinels may not take part in arithmetic)
		m.i53Range(a)
		m.i53Range(b)
		m.i53Range(r)
		return r
	case "ieee":
		a, b := m.asFP(x), m.asFP(y)
		var o sym.Op
		switch op {
		case token.ADD:
			o = sym.OFPAdd
		case token.SUB:
			o = sym.OFPSub
		case token.MUL:
			o = sym.OFPMul
		case token.QUO:
			o = sym.OFPDiv
		}
		return &FloatV{FP: m.F.FPBin(o, a, b)}
	}
	panic(unsupported("arithmetic on a symbolic float in opaque mode"))
}

func (m *Machine) floatCmp(op string, x, y *FloatV) *sym.Term {
	if x.IsConst() && y.IsConst() {
		a, b := x.Const(), y.Const()
		switch op {
		case "==":
			return m.boolT(a == b)
		case "<":
			return m.boolT(a < b)
		default:
			return m.boolT(a <= b)
		}
	}
	switch m.floatMode() {
	case "int53":
		a, b := m.toI53(x), m.toI53(y)
		ok := m.F.And(m.F.Not(m.nanOf(a)), m.F.Not(m.nanOf(b)))
		fa, fb := m.fracOf(a), m.fracOf(b)
		eq := m.F.And(m.F.Eq(a.I, b.I), m.F.Eq(fa, fb))
		lt := m.F.Or(m.F.Bin(sym.OSLT, a.I, b.I), m.F.And(m.F.Eq(a.I, b.I), m.F.And(m.F.Not(fa), fb)))
		switch op {
		case "==":
			return m.F.And(ok, eq)
		case "<":
			return m.F.And(ok, lt)
		default:
			return m.F.And(ok, m.F.Or(lt, eq))
		}
	case "ieee":
		a, b := m.asFP(x), m.asFP(y)
		switch op {
		case "==":
			return m.F.FPBin(sym.OFPEq, a, b)
		case "<":
			return m.F.FPBin(sym.OFPLt, a, b)
		default:
			return m.F.FPBin(sym.OFPLe, a, b)
		}
	}
	panic(unsupported("comparison of a symbolic float in opaque mode"))
}

func (m *Machine) floatNeg(x *FloatV) Value {
	if x.IsConst() {
		return m.fromNative(-x.Const(), x.F32)
	}
	switch m.floatMode() {
	case "int53":
		a := m.toI53(x)
		m.noFrac(a, "negation")
		return &FloatV{I: m.F.Neg(a.I), NaN: a.NaN}
	case "ieee":
		return &FloatV{FP: m.F.FPUn(sym.OFPNeg, sym.FP64, m.asFP(x))}
	}
	if x.Bits != nil {
		return &FloatV{Bits: m.F.Bin(sym.OBXor, x.Bits, m.bv(64, 1<<63))}
	}
	panic(unsupported("negation of opaque float"))
}

func (m *Machine) floatToInt(x *FloatV, w int, signed bool) Value {
	if x.IsConst() {
		v := x.Const()
		if signed {
			return m.bv(w, uint64(int64(v)))
		}
		if v < 0 {
			return m.bv(w, uint64(int64(v)))
		}
		return m.bv(w, uint64(v))
	}
	switch m.floatMode() {
	case "int53":
		a := m.toI53(x)
		m.noFrac(a, "conversion to integer")
		return m.toWidth(a.I, w, true)
	case "ieee":
		if signed {
			return m.F.FPToInt(sym.OFPToSInt, m.asFP(x), w)
		}
		return m.F.FPToInt(sym.OFPToUInt, m.asFP(x), w)
	}
	panic(unsupported("float to int of opaque float"))
}

func (m *Machine) intToFloat(x *sym.Term, signed bool, f32 bool) Value {
	if x.IsConst() {
		if signed {
			return m.fromNative(float64(x.Int64()), f32)
		}
		return m.fromNative(float64(x.C), f32)
	}
	if f32 {
		panic(unsupported("symbolic int to float32"))
	}
	switch m.floatMode() {
	case "int53":
		r := &FloatV{I: m.toWidth(x, 64, signed)}
		if !signed && x.Sort.W == 64 {
			// top bit would be misread as sign
			m.addPC(m.F.Bin(sym.OSLE, m.i64(0), r.I))
		}
		m.i53Range(r)
		return r
	case "ieee":
		x64 := m.toWidth(x, 64, signed)
		if signed {
			return &FloatV{FP: m.F.FPUn(sym.OFPFromSInt, sym.FP64, x64)}
		}
		return &FloatV{FP: m.F.FPUn(sym.OFPFromUInt, sym.FP64, x64)}
	}
	panic(unsupported("symbolic int to float in opaque mode"))
}

func (m *Machine) floatConv(x *FloatV, f32 bool) Value {
	if x.IsConst() {
		return m.fromNative(x.Const(), f32)
	}
	if f32 || x.F32 {
		panic(unsupported("symbolic float32 conversion"))
	}
	return x
}

func (m *Machine) floatMinMax(isMin bool, x, y *FloatV) Value {
	if x.IsConst() && y.IsConst() {
		if isMin {
			return m.fromNative(min(x.Const(), y.Const()), x.F32)
		}
		return m.fromNative(max(x.Const(), y.Const()), x.F32)
	}
	if m.floatMode() == "int53" {
		a, b := m.toI53(x), m.toI53(y)
		fa, fb := m.fracOf(a), m.fracOf(b)
		lt := m.F.Or(m.F.Bin(sym.OSLT, b.I, a.I), m.F.And(m.F.Eq(a.I, b.I), m.F.And(m.F.Not(fb), fa)))
		var i, fr *sym.Term
		if isMin {
			i, fr = m.F.Ite(lt, b.I, a.I), m.F.Ite(lt, fb, fa)
		} else {
			i, fr = m.F.Ite(lt, a.I, b.I), m.F.Ite(lt, fa, fb)
		}
		return &FloatV{I: i, Frac: fr, NaN: m.F.Or(m.nanOf(a), m.nanOf(b))}
	}
	panic(unsupported("min/max on symbolic floats"))
}

// floatBits implements math.Float64bits.
func (m *Machine) floatBits(x *FloatV) *sym.Term {
	if x.Bits != nil && x.I == nil && x.FP == nil {
		return x.Bits
	}
	if x.FP != nil {
		b := m.F.Var(m.freshName("h_fbits"), sym.BV(64))
		m.addPC(m.F.Eq(m.F.FPUn(sym.OFPOfBits, sym.FP64, b), x.FP))
		return b
	}
	panic(unsupported("Float64bits of an int53 float"))
}

// floatFromBits implements math.Float64frombits.
func (m *Machine) floatFromBits(b *sym.Term) *FloatV {
	return &FloatV{Bits: b}
}

// symFloat creates a harness input float.
func (m *Machine) symFloat(name string) *FloatV {
	switch m.floatMode() {
	case "int53":
		i := m.F.Var("v_"+name, sym.BV(64))
		nan := m.F.Var("v_"+name+"_nan", sym.Bool)
		lim := int64(1) << 31
		m.addPC(m.F.And(m.F.Bin(sym.OSLE, m.i64(-lim), i), m.F.Bin(sym.OSLE, i, m.i64(lim))))
		return &FloatV{I: i, NaN: nan}
	}
	return &FloatV{Bits: m.F.Var("v_"+name, sym.BV(64))}
}
