package exec

import (
	"fmt"
	"go/token"
	"go/types"

	"golang.org/x/tools/go/ssa"

	"verif/engine/sym"
)

// Threads are Go goroutines passing a baton; exactly one runs at a time.

type Chan struct {
	buf    []Value
	cap    int
	closed bool
	elemT  types.Type
	sendq  []*pendingSend
	recvW  int // threads blocked receiving
	never  bool // timer channel that never fires
}

type pendingSend struct {
	v     Value
	taken bool
}

func (m *Machine) makeChan(size int, elem types.Type) *Chan {
	return &Chan{cap: size, elemT: elem}
}

type threadExit struct {
	pe  *pathEnd
	tp  *targetPanic
	thr *Thread
}

func (m *Machine) mainThread() *Thread {
	t := &Thread{id: 0, wake: make(chan struct{}, 1), started: true}
	m.threads = []*Thread{t}
	m.cur = t
	return t
}

func (m *Machine) spawn(fr *frame, pos token.Pos, fn Value, args []Value) {
	if m.cur == nil {
		m.mainThread()
	}
	if len(m.threads) >= m.Spec.MaxThreads {
		panic(pathEnd{"unwind", fmt.Sprintf("more than %d goroutines", m.Spec.MaxThreads)})
	}
	t := &Thread{id: len(m.threads), wake: make(chan struct{}, 1)}
	m.threads = append(m.threads, t)
	m.threadWG.Add(1)
	go func() {
		defer m.threadWG.Done()
		<-t.wake
		if m.dead {
			return
		}
		t.started = true
		defer func() {
			r := recover()
			t.done = true
			if r != nil {
				switch r := r.(type) {
				case pathEnd:
					if r.kind != "killed" {
						m.threadEnd(&r, nil)
					}
				case targetPanic:
					m.threadEnd(nil, &r)
				default:
					pe := pathEnd{"engine", fmt.Sprint(r)}
					m.threadEnd(&pe, nil)
				}
				return
			}
			if m.dead {
				return
			}
			// normal end of goroutine: hand the baton on
			next := m.pickRunnable(nil)
			if next == nil {
				pe := pathEnd{"deadlock", "goroutine finished and all others are blocked: " + m.blockedSummary()}
				m.threadEnd(&pe, nil)
				return
			}
			m.cur = next
			next.wake <- struct{}{}
		}()
		m.call(nil, pos, fn, args)
	}()
	// T0: run the child now until it blocks or finishes
	if m.Spec.Sched == "T1" {
		m.schedPoint("go")
		return
	}
	m.switchTo(t)
}

// threadEnd is called on a non-main thread that ends the whole path.
func (m *Machine) threadEnd(pe *pathEnd, tp *targetPanic) {
	if m.pendingEnd == nil {
		if pe != nil {
			m.pendingEnd = pe
		} else {
			x := pathEnd{"gopanic", "panic in goroutine: " + m.panicString(tp.v) + " at " + tp.pos}
			m.pendingEnd = &x
			m.pendingPanic = tp
		}
	}
	m.dead = true
	main := m.threads[0]
	m.cur = main
	main.wake <- struct{}{}
}

func (m *Machine) blockedSummary() string {
	s := ""
	for _, t := range m.threads {
		if !t.done {
			s += fmt.Sprintf("[g%d %s]", t.id, t.why)
		}
	}
	return s
}

func (m *Machine) switchTo(next *Thread) {
	me := m.cur
	if next == me {
		return
	}
	m.cur = next
	next.wake <- struct{}{}
	<-me.wake
	if m.dead {
		if me.id == 0 && m.pendingEnd != nil {
			panic(*m.pendingEnd)
		}
		panic(pathEnd{"killed", ""})
	}
	m.cur = me
}

func (m *Machine) runnable(t *Thread) bool {
	if t.done {
		return false
	}
	return t.blocked == nil || t.blocked()
}

func (m *Machine) pickRunnable(except *Thread) *Thread {
	for _, t := range m.threads {
		if t != except && m.runnable(t) {
			return t
		}
	}
	return nil
}

// block waits until pred holds.
func (m *Machine) block(pred func() bool, why string) {
	if pred() {
		return
	}
	if m.cur == nil {
		m.mainThread()
	}
	me := m.cur
	for !pred() {
		me.blocked = pred
		me.why = why
		var next *Thread
		if m.Spec.Sched == "T1" {
			var rs []*Thread
			for _, t := range m.threads {
				if t != me && m.runnable(t) {
					rs = append(rs, t)
				}
			}
			if len(rs) > 0 {
				next = rs[m.choose("sc", len(rs))]
			}
		} else {
			next = m.pickRunnable(me)
		}
		if next == nil {
			panic(pathEnd{"deadlock", "all goroutines blocked: " + m.blockedSummary()})
		}
		m.switchTo(next)
	}
	me.blocked = nil
	me.why = ""
}

// schedPoint lets the explored scheduler (T1) pre-empt the current thread.
func (m *Machine) schedPoint(what string) {
	if m.Spec.Sched != "T1" || m.cur == nil || len(m.threads) < 2 {
		return
	}
	if m.preempt >= m.Spec.Preempt {
		return
	}
	me := m.cur
	rs := []*Thread{me}
	for _, t := range m.threads {
		if t != me && m.runnable(t) {
			rs = append(rs, t)
		}
	}
	if len(rs) == 1 {
		return
	}
	c := m.choose("sp", len(rs))
	if c == 0 {
		return
	}
	m.preempt++
	m.switchTo(rs[c])
}

// killThreads ends all non-main goroutines of the finished path.
func (m *Machine) killThreads() {
	m.dead = true
	for _, t := range m.threads[min(1, len(m.threads)):] {
		if !t.done {
			select {
			case t.wake <- struct{}{}:
			default:
			}
		}
	}
	m.threadWG.Wait()
}

// ---------- channels ----------

func (m *Machine) chanSend(c *Chan, v Value) {
	m.schedPoint("send")
	if c == nil {
		m.block(func() bool { return false }, "send on nil chan")
	}
	if c.closed {
		panic(m.goPanic("send on closed channel"))
	}
	v = copyVal(v)
	if c.cap > 0 {
		m.block(func() bool { return len(c.buf) < c.cap || c.closed }, "chan send (full)")
		if c.closed {
			panic(m.goPanic("send on closed channel"))
		}
		c.buf = append(c.buf, v)
		return
	}
	ps := &pendingSend{v: v}
	c.sendq = append(c.sendq, ps)
	m.block(func() bool { return ps.taken || c.closed }, "chan send (unbuffered)")
	if !ps.taken {
		panic(m.goPanic("send on closed channel"))
	}
}

func (c *Chan) recvReady() bool {
	return c != nil && !c.never && (len(c.buf) > 0 || len(c.sendq) > 0 || c.closed)
}

func (m *Machine) takeFrom(c *Chan) (Value, bool) {
	if len(c.buf) > 0 {
		v := c.buf[0]
		c.buf = c.buf[1:]
		return v, true
	}
	if len(c.sendq) > 0 {
		ps := c.sendq[0]
		c.sendq = c.sendq[1:]
		ps.taken = true
		return ps.v, true
	}
	return m.zero(c.elemT), false
}

func (m *Machine) chanRecv(c *Chan, commaOk bool) Value {
	m.schedPoint("recv")
	if c == nil {
		m.block(func() bool { return false }, "recv on nil chan")
	}
	if !c.recvReady() {
		c.recvW++
		m.block(c.recvReady, "chan recv")
		c.recvW--
	}
	v, ok := m.takeFrom(c)
	if commaOk {
		return Tuple{v, m.boolT(ok)}
	}
	return v
}

func (m *Machine) chanClose(c *Chan) {
	if c == nil {
		panic(m.goPanic("close of nil channel"))
	}
	if c.closed {
		panic(m.goPanic("close of closed channel"))
	}
	c.closed = true
	m.schedPoint("close")
}

func (c *Chan) sendReady() bool {
	if c == nil {
		return false
	}
	if c.closed {
		return true // will panic
	}
	if c.cap > 0 {
		return len(c.buf) < c.cap
	}
	return c.recvW > 0
}

func (m *Machine) selectOp(fr *frame, instr *ssa.Select) Value {
	m.schedPoint("select")
	type cs struct {
		c    *Chan
		send bool
		v    Value
	}
	var cases []cs
	for _, st := range instr.States {
		c := fr.get(st.Chan).(*Chan)
		x := cs{c: c, send: st.Dir == types.SendOnly}
		if x.send {
			x.v = fr.get(st.Send)
		}
		cases = append(cases, x)
	}
	ready := func() []int {
		var r []int
		for i, c := range cases {
			if c.send {
				if c.c.sendReady() {
					r = append(r, i)
				}
			} else if c.c.recvReady() {
				r = append(r, i)
			}
		}
		return r
	}
	rs := ready()
	chosen := -1
	if len(rs) == 0 {
		if instr.Blocking {
			for _, c := range cases {
				if !c.send && c.c != nil {
					c.c.recvW++
				}
			}
			m.block(func() bool { return len(ready()) > 0 }, "select")
			for _, c := range cases {
				if !c.send && c.c != nil {
					c.c.recvW--
				}
			}
			rs = ready()
		}
	}
	if len(rs) > 0 {
		chosen = rs[m.choose("sel", len(rs))]
	}
	var recvV Value
	recvOk := false
	if chosen >= 0 {
		c := cases[chosen]
		if c.send {
			if c.c.closed {
				panic(m.goPanic("send on closed channel"))
			}
			if c.c.cap > 0 {
				c.c.buf = append(c.c.buf, copyVal(c.v))
			} else {
				c.c.sendq = append(c.c.sendq, &pendingSend{v: copyVal(c.v)})
			}
		} else {
			recvV, recvOk = m.takeFrom(c.c)
		}
	}
	r := Tuple{m.i64(int64(chosen)), m.boolT(recvOk)}
	for i, st := range instr.States {
		if st.Dir == types.RecvOnly {
			if i == chosen {
				r = append(r, recvV)
			} else {
				r = append(r, m.zero(st.Chan.Type().Underlying().(*types.Chan).Elem()))
			}
		}
	}
	return r
}

// ---------- sync primitives (side tables keyed by object address) ----------

type mutexState struct {
	locked  bool
	readers int
	owner   *Thread
	where   string
}

func (m *Machine) mutex(p *Value) *mutexState {
	if p == nil {
		panic(m.goPanic("invalid memory address or nil pointer dereference (nil mutex)"))
	}
	if s, ok := m.mutexes[p]; ok {
		return s
	}
	s := &mutexState{}
	m.mutexes[p] = s
	return s
}

func (m *Machine) lock(p *Value) {
	s := m.mutex(p)
	m.schedPoint("lock")
	why := "Mutex.Lock"
	if s.locked && s.owner != nil {
		why = fmt.Sprintf("Mutex.Lock(held by g%d, done=%v, at %s)", s.owner.id, s.owner.done, s.where)
	}
	m.block(func() bool { return !s.locked && s.readers == 0 }, why)
	if m.curInstr != nil && m.curFrame != nil {
		s.where = m.position(m.curInstr.Pos()) + " " + m.curFrame.fn.String()
		if m.curFrame.caller != nil {
			s.where += " <- " + m.curFrame.caller.fn.String()
		}
	}
	s.locked = true
	s.owner = m.cur
}

func (m *Machine) tryLock(p *Value) bool {
	s := m.mutex(p)
	m.schedPoint("trylock")
	if s.locked || s.readers > 0 {
		return false
	}
	s.locked = true
	return true
}

func (m *Machine) unlock(p *Value) {
	s := m.mutex(p)
	if !s.locked {
		panic(targetPanic{v: Iface{T: m.W.runtimeErrorString, V: Str{S: "sync: unlock of unlocked mutex"}}})
	}
	s.locked = false
	m.schedPoint("unlock")
}

func (m *Machine) rlock(p *Value) {
	s := m.mutex(p)
	m.schedPoint("rlock")
	m.block(func() bool { return !s.locked }, "RWMutex.RLock")
	s.readers++
}

func (m *Machine) runlock(p *Value) {
	s := m.mutex(p)
	if s.readers <= 0 {
		panic(targetPanic{v: Iface{T: m.W.runtimeErrorString, V: Str{S: "sync: RUnlock of unlocked RWMutex"}}})
	}
	s.readers--
	m.schedPoint("runlock")
}

type condState struct {
	next      int
	waiting   []int
	signalled map[int]bool
}

func (m *Machine) condState(p *Value) *condState {
	if m.conds == nil {
		m.conds = map[*Value]*condState{}
	}
	if s, ok := m.conds[p]; ok {
		return s
	}
	s := &condState{signalled: map[int]bool{}}
	m.conds[p] = s
	return s
}

type wgState struct{ n int64 }

func (m *Machine) wg(p *Value) *wgState {
	if s, ok := m.wgs[p]; ok {
		return s
	}
	s := &wgState{}
	m.wgs[p] = s
	return s
}

var _ = sym.Bool
