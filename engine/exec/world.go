package exec

import (
	"encoding/json"
	"fmt"
	"go/types"
	"os"
	"path/filepath"
	"sort"
	"strings"
	"sync"
	"time"

	"golang.org/x/tools/go/packages"
	"golang.org/x/tools/go/ssa"
	"golang.org/x/tools/go/ssa/ssautil"

	"verif/engine/solver"
)

// Spec is the per-property specification file (/verif/specs/Cxx.json).
type Spec struct {
	Property    string            `json:"property"`
	Packages    []string          `json:"packages"`
	Harnesses   []HarnessDecl     `json:"harnesses"`
	Defaults    HarnessSpec       `json:"defaults"`
	Overrides   map[string]string `json:"overrides"`
	HavocExtra  []string          `json:"havoc_extra"`
	RealFuncs   []string          `json:"real_funcs"`
	Assumptions []string          `json:"assumptions"`
	SkipInit    []string          `json:"skip_init"`
	Outside     []string          `json:"outside"`
	SkipInitRegexp bool           `json:"skip_init_regexp"`
}

type HarnessDecl struct {
	Entry     string                 `json:"entry"`
	Pkg       string                 `json:"pkg"`
	Witnesses []string               `json:"witnesses"`
	Quick     map[string]interface{} `json:"quick"`
	Thorough  map[string]interface{} `json:"thorough"`
	Common    map[string]interface{} `json:"common"`
	Overrides map[string]string      `json:"overrides"` // per-harness overrides, on top of the spec-wide ones
}

// HarnessSpec: effective settings for one harness run.
type HarnessSpec struct {
	Property      string           `json:"-"`
	Entry         string           `json:"-"`
	Pkg           string           `json:"-"`
	Params        map[string]int64 `json:"params"`
	Fix           map[string]int64 `json:"fix"`
	Float         string           `json:"float"`
	Sched         string           `json:"sched"`
	MapOrder      string           `json:"maporder"`
	Sort          string           `json:"sort"`
	PoolMode      string           `json:"pool"`
	Unwind        int              `json:"unwind"`
	MaxDecisions  int              `json:"max_decisions"`
	MaxDepth      int              `json:"max_depth"`
	MaxThreads    int              `json:"max_threads"`
	Preempt       int              `json:"preempt"`
	ConcretizeMax int              `json:"concretize_max"`
	MaxAlloc      int              `json:"max_alloc"`
	MaxSteps      int64            `json:"max_steps"`
	MaxPaths      int64            `json:"max_paths"`
	FeasMs        int              `json:"feas_ms"`
	AssertMs      int              `json:"assert_ms"`
	ClockLo       int64            `json:"clock_lo"`
	ClockHi       int64            `json:"clock_hi"`
	ClockNanos    bool             `json:"clock_nanos"`
	Witnesses     []string         `json:"-"`
	KnownPhase    string           `json:"-"`
	PanicOK       bool             `json:"panic_ok"`       // uncaught panics are not violations (default: they are)
	UnwindViol    bool             `json:"unwind_viol"`    // unwinding failure is the violation (termination properties)
	DeadlockOK    bool             `json:"deadlock_ok"`    // deadlock is inconclusive instead of a violation
	TimeBudgetS   int              `json:"time_budget_s"`
	PartialOK     bool             `json:"partial_ok"` // thorough tiers: exhausting the time budget ends the exploration of the bound, reported as PARTIAL (not a verdict on the unexplored rest)
	DivAxioms     bool             `json:"div_axioms"`     // encode x/c, x%c (c constant) by x = q*c + r instead of bvsdiv/bvsrem
	Solver        string           `json:"solver"`         // path solver: z3 (default) | z3-new | cvc5 | cvc5-int
	ReplayRetries int              `json:"replay_retries"` // native replay: retry with salted verifHashKey inputs (hash-dependent counterexamples)
	Arith         string           `json:"arith"`          // "" = bit-vectors; "int" = exact signed-integer printing (sym/intmode.go)
}

func (h *HarnessSpec) fill() {
	def := func(p *int, v int) {
		if *p == 0 {
			*p = v
		}
	}
	def(&h.Unwind, 40)
	def(&h.MaxDecisions, 4000)
	def(&h.MaxDepth, 400)
	def(&h.MaxThreads, 8)
	def(&h.Preempt, 2)
	def(&h.ConcretizeMax, 16)
	def(&h.MaxAlloc, 1<<16)
	def(&h.FeasMs, 2000)
	def(&h.AssertMs, 10000)
	def(&h.TimeBudgetS, 900)
	if h.MaxSteps == 0 {
		h.MaxSteps = 20_000_000
	}
	if h.MaxPaths == 0 {
		h.MaxPaths = 2_000_000
	}
	if h.Float == "" {
		h.Float = "opaque"
	}
	if h.Params == nil {
		h.Params = map[string]int64{}
	}
	if h.Fix == nil {
		h.Fix = map[string]int64{}
	}
}

// World: the loaded program and global configuration, shared read-only by workers.
type World struct {
	Prog     *ssa.Program
	Pkgs     []*packages.Package
	SpecFile *Spec
	Tier     string
	Workers  int

	Portfolio        []string
	PortfolioTimeout time.Duration

	runtimeErrorString types.Type
	fmtWrapError       *types.Named
	timeLocal          *ssa.Global
	overrides          map[string]*ssa.Function
	realFuncs          map[string]bool
	havocPrefixes      []string
	skipInitPkgs       map[string]bool
	known              []KnownFinding

	mu          sync.Mutex
	poison      map[string]string
	assertSeen  map[string]int64
	assertDisch map[string]int64
	assertTriv  map[string]int64
	portfolioBy map[string]int64
	LoadSeconds float64
	harnessPkgs map[string]*ssa.Package
	Seed        int64
}

type KnownFinding struct {
	Property string `json:"property"`
	ID       string `json:"id"`
	Harness  string `json:"harness"`
	What     string `json:"what"`
	Status   string `json:"status"` // "open" or "fixed"
	Commit   string `json:"commit,omitempty"`
}

var defaultHavoc = []string{
	"github.com/go-kit/log",
	"github.com/prometheus/client_golang",
	"github.com/prometheus/client_model",
	"github.com/opentracing/opentracing-go",
	"go.opentelemetry.io/",
	"log/slog",
	"github.com/thanos-io/thanos/pkg/logutil",
	"github.com/thanos-io/thanos/pkg/extprom",
	"github.com/thanos-io/thanos/internal/cortex/util/spanlogger",
	"github.com/uber/jaeger-client-go",
	"google.golang.org/grpc/grpclog",
}

var havocCallbackAllow = []string{"NewGaugeFunc", "NewCounterFunc", "NewGaugeVec", "WithLabelValues", "Log"}

func (w *World) havocPkg(path string) bool {
	if path == "" {
		return false
	}
	for _, p := range w.havocPrefixes {
		if path == p || strings.HasPrefix(path, p) {
			return true
		}
	}
	return false
}

func (w *World) havocType(t types.Type) bool {
	if p, ok := t.(*types.Pointer); ok {
		t = p.Elem()
	}
	switch t := t.(type) {
	case *types.Named:
		if t.Obj().Pkg() != nil {
			return w.havocPkg(t.Obj().Pkg().Path())
		}
	case *types.Alias:
		return w.havocType(types.Unalias(t))
	}
	return false
}

func (w *World) havocCallbackOK(name string) bool {
	for _, a := range havocCallbackAllow {
		if strings.Contains(name, a) {
			return true
		}
	}
	return false
}

func (w *World) skipInit(pkg *ssa.Package) bool {
	p := pkg.Pkg.Path()
	if w.skipInitPkgs[p] {
		return true
	}
	switch {
	case p == "runtime", p == "syscall", p == "os", p == "reflect", p == "unsafe", p == "net", p == "testing",
		strings.HasPrefix(p, "internal/"), strings.HasPrefix(p, "runtime/"), strings.HasPrefix(p, "crypto/"),
		strings.HasPrefix(p, "net/"), strings.HasPrefix(p, "google.golang.org/"), strings.HasPrefix(p, "golang.org/x/net"):
		return true
	}
	return w.havocPkg(p)
}

func (w *World) notePoison(pkg, msg string) {
	w.mu.Lock()
	defer w.mu.Unlock()
	if _, ok := w.poison[pkg]; !ok {
		w.poison[pkg] = msg
	}
}

func (w *World) noteAssertion(h, id string) {
	w.mu.Lock()
	w.assertSeen[h+"/"+id]++
	w.mu.Unlock()
}
func (w *World) noteTrivial(h, id string) {
	w.mu.Lock()
	w.assertTriv[h+"/"+id]++
	w.mu.Unlock()
}
func (w *World) noteDischarged(h, id string) {
	w.mu.Lock()
	w.assertDisch[h+"/"+id]++
	w.mu.Unlock()
}
func (w *World) notePortfolio(who string, r solver.Result) {
	w.mu.Lock()
	w.portfolioBy[who+":"+r.String()]++
	w.mu.Unlock()
}

func (w *World) isKnown(prop, id string) bool {
	for _, k := range w.known {
		if k.Property == prop && k.ID == id && k.Status != "fixed" {
			return true
		}
	}
	return false
}

// repoDir is the tree under analysis: /repo, or a scratch copy of it when GOSYM_REPO is set (used only by
// tools/seedcheck.sh to run a check against a seeded change without touching /repo).
var repoDir = func() string {
	if d := os.Getenv("GOSYM_REPO"); d != "" {
		return d
	}
	return "/repo"
}()

func init() {
	if !strings.HasPrefix(os.Getenv("PATH"), "/opt/veriftools/go1.26.8/bin") {
		os.Setenv("PATH", "/opt/veriftools/go1.26.8/bin:"+os.Getenv("PATH"))
	}
	os.Setenv("GOTOOLCHAIN", "local")
	os.Setenv("GOFLAGS", "-mod=mod")
	os.Setenv("GOPROXY", "off")
	os.Setenv("GOSUMDB", "off")
}

func env() []string { return os.Environ() }

// HarnessOverlay maps virtual /repo paths to the harness files under harnessRoot.
func HarnessOverlay(harnessRoot string, pkgsRel []string, forTest bool) (map[string]string, error) {
	ov := map[string]string{}
	rt, err := os.ReadFile(filepath.Join(harnessRoot, "rt", "rt.go.tmpl"))
	if err != nil {
		return nil, err
	}
	for _, rel := range pkgsRel {
		rel = strings.TrimPrefix(rel, "./")
		dir := filepath.Join(harnessRoot, rel)
		ents, err := os.ReadDir(dir)
		if err != nil {
			return nil, fmt.Errorf("harness dir %s: %v", dir, err)
		}
		pkgName := ""
		for _, e := range ents {
			if !strings.HasSuffix(e.Name(), ".go") {
				continue
			}
			if strings.HasSuffix(e.Name(), "_test.go") && !forTest {
				continue
			}
			src := filepath.Join(dir, e.Name())
			ov[filepath.Join(repoDir, rel, e.Name())] = src
			if pkgName == "" && !strings.HasSuffix(e.Name(), "_test.go") {
				b, _ := os.ReadFile(src)
				for _, l := range strings.Split(string(b), "\n") {
					if strings.HasPrefix(l, "package ") {
						pkgName = strings.TrimSpace(strings.TrimPrefix(l, "package "))
						break
					}
				}
			}
		}
		if pkgName == "" {
			return nil, fmt.Errorf("no harness files in %s", dir)
		}
		gen := filepath.Join(os.TempDir(), fmt.Sprintf("verif-rt-%d-%s.go", os.Getpid(), sanitize(rel)))
		if err := os.WriteFile(gen, []byte(strings.ReplaceAll(string(rt), "PKGNAME", pkgName)), 0o644); err != nil {
			return nil, err
		}
		ov[filepath.Join(repoDir, rel, "zz_verif_rt.go")] = gen
	}
	return ov, nil
}

func Load(spec *Spec, harnessRoot string) (*World, error) {
	t0 := time.Now()
	ovFiles, err := HarnessOverlay(harnessRoot, spec.Packages, false)
	if err != nil {
		return nil, err
	}
	overlay := map[string][]byte{}
	for k, v := range ovFiles {
		b, err := os.ReadFile(v)
		if err != nil {
			return nil, err
		}
		overlay[k] = b
	}
	cfg := &packages.Config{
		Mode:       packages.LoadAllSyntax,
		Dir:        repoDir,
		BuildFlags: []string{"-tags=slicelabels"},
		Overlay:    overlay,
		Env:        env(),
	}
	pkgs, err := packages.Load(cfg, spec.Packages...)
	if err != nil {
		return nil, err
	}
	nerr := 0
	packages.Visit(pkgs, nil, func(p *packages.Package) {
		for _, e := range p.Errors {
			if nerr < 20 {
				fmt.Fprintln(os.Stderr, "load error:", e)
			}
			nerr++
		}
	})
	if nerr > 0 {
		return nil, fmt.Errorf("%d package load errors", nerr)
	}
	prog, _ := ssautil.AllPackages(pkgs, ssa.InstantiateGenerics)
	prog.Build()
	w := &World{
		Prog: prog, Pkgs: pkgs, SpecFile: spec,
		overrides: map[string]*ssa.Function{}, realFuncs: map[string]bool{},
		skipInitPkgs: map[string]bool{}, poison: map[string]string{},
		assertSeen: map[string]int64{}, assertDisch: map[string]int64{}, assertTriv: map[string]int64{}, portfolioBy: map[string]int64{},
		harnessPkgs: map[string]*ssa.Package{},
		Portfolio:   []string{"z3", "z3-new", "cvc5", "cvc5-int"}, PortfolioTimeout: 60 * time.Second,
	}
	w.havocPrefixes = append(append([]string{}, defaultHavoc...), spec.HavocExtra...)
	for _, f := range spec.RealFuncs {
		w.realFuncs[f] = true
	}
	for _, p := range spec.SkipInit {
		w.skipInitPkgs[p] = true
	}
	if rp := prog.ImportedPackage("runtime"); rp != nil {
		w.runtimeErrorString = rp.Type("errorString").Object().Type()
	}
	if fp := prog.ImportedPackage("fmt"); fp != nil {
		if t := fp.Type("wrapError"); t != nil {
			w.fmtWrapError = t.Object().Type().(*types.Named)
		}
	}
	if tp := prog.ImportedPackage("time"); tp != nil {
		w.timeLocal, _ = tp.Members["Local"].(*ssa.Global)
	}
	for _, p := range pkgs {
		sp := prog.Package(p.Types)
		if sp != nil {
			w.harnessPkgs[p.PkgPath] = sp
		}
	}
	// resolve overrides: "pkg/path.Func" or "(*pkg/path.T).M" -> harness function (searched in all harness packages)
	for from, to := range spec.Overrides {
		target := w.harnessFunc(to)
		if target == nil {
			return nil, fmt.Errorf("override target %s not found in harness packages", to)
		}
		w.overrides[from] = target
	}
	w.LoadSeconds = time.Since(t0).Seconds()
	return w, nil
}

func (w *World) LoadKnown(path string) error {
	b, err := os.ReadFile(path)
	if err != nil {
		if os.IsNotExist(err) {
			return nil
		}
		return err
	}
	var f struct {
		Findings []KnownFinding `json:"findings"`
	}
	if err := json.Unmarshal(b, &f); err != nil {
		return err
	}
	w.known = f.Findings
	return nil
}

func (w *World) findEntry(h *HarnessDecl) (*ssa.Function, string, error) {
	var names []string
	for path, sp := range w.harnessPkgs {
		if h.Pkg != "" && !strings.HasSuffix(path, strings.TrimPrefix(h.Pkg, "./")) {
			continue
		}
		if f := sp.Func(h.Entry); f != nil {
			return f, path, nil
		}
		names = append(names, path)
	}
	sort.Strings(names)
	return nil, "", fmt.Errorf("harness entry %s not found in %v", h.Entry, names)
}

// effective merges defaults, common and tier settings into a HarnessSpec.
func (w *World) effective(h *HarnessDecl) (*HarnessSpec, error) {
	base, _ := json.Marshal(w.SpecFile.Defaults)
	var hs HarnessSpec
	json.Unmarshal(base, &hs)
	apply := func(m map[string]interface{}) error {
		if m == nil {
			return nil
		}
		// unknown keys with numeric values are params
		known := map[string]bool{}
		var probe map[string]json.RawMessage
		pb, _ := json.Marshal(HarnessSpec{Params: map[string]int64{}, Fix: map[string]int64{}})
		json.Unmarshal(pb, &probe)
		for k := range probe {
			known[k] = true
		}
		for _, k := range []string{"div_axioms", "solver", "arith", "replay_retries", "float", "sched", "maporder", "sort", "pool", "unwind", "max_decisions", "max_depth", "max_threads", "preempt", "concretize_max", "max_alloc", "max_steps", "max_paths", "feas_ms", "assert_ms", "clock_lo", "clock_hi", "clock_nanos", "panic_ok", "unwind_viol", "deadlock_ok", "time_budget_s", "partial_ok", "params", "fix"} {
			known[k] = true
		}
		rest := map[string]interface{}{}
		for k, v := range m {
			if known[k] {
				rest[k] = v
				continue
			}
			f, ok := v.(float64)
			if !ok {
				return fmt.Errorf("spec: parameter %s must be a number", k)
			}
			if hs.Params == nil {
				hs.Params = map[string]int64{}
			}
			hs.Params[k] = int64(f)
		}
		b, _ := json.Marshal(rest)
		saveP, saveF := hs.Params, hs.Fix
		if err := json.Unmarshal(b, &hs); err != nil {
			return err
		}
		if _, ok := rest["params"]; !ok {
			hs.Params = saveP
		} else {
			for k, v := range saveP {
				if _, dup := hs.Params[k]; !dup {
					hs.Params[k] = v
				}
			}
		}
		if _, ok := rest["fix"]; !ok {
			hs.Fix = saveF
		}
		return nil
	}
	if err := apply(h.Common); err != nil {
		return nil, err
	}
	if w.Tier == "thorough" {
		if err := apply(h.Quick); err != nil { // thorough inherits quick, then overrides
			return nil, err
		}
		if err := apply(h.Thorough); err != nil {
			return nil, err
		}
	} else if err := apply(h.Quick); err != nil {
		return nil, err
	}
	hs.fill()
	hs.Property = w.SpecFile.Property
	hs.Entry = h.Entry
	hs.Witnesses = h.Witnesses
	return &hs, nil
}

func (w *World) harnessFunc(name string) *ssa.Function {
	for _, sp := range w.harnessPkgs {
		if f := sp.Func(name); f != nil {
			return f
		}
	}
	return nil
}

// setHarnessOverrides installs spec-wide plus per-harness overrides (harnesses run one after another).
func (w *World) setHarnessOverrides(h *HarnessDecl) error {
	ov := map[string]*ssa.Function{}
	for from, to := range w.SpecFile.Overrides {
		ov[from] = w.harnessFunc(to)
	}
	for from, to := range h.Overrides {
		f := w.harnessFunc(to)
		if f == nil {
			return fmt.Errorf("override target %s not found in harness packages", to)
		}
		ov[from] = f
	}
	w.overrides = ov
	return nil
}
