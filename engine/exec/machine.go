package exec

import (
	"fmt"
	"go/token"
	"go/types"
	"sort"
	"strings"
	"sync"

	"golang.org/x/tools/go/ssa"

	"verif/engine/solver"
	"verif/engine/sym"
)

// ---------- path termination ----------

type pathEnd struct {
	kind string // done | unsupported | unwind | infeasible | crash | killed | deadlock | violation | depth
	msg  string
}

func unsupported(msg string) pathEnd { return pathEnd{"unsupported", msg} }

// targetPanic is a Go-level panic travelling through interpreted frames.
type targetPanic struct {
	v   Value
	pos string
}

// ---------- decisions ----------

type Decision struct {
	Kind  string   `json:"k"`
	Taken int      `json:"t"`
	Rest  []int    `json:"r,omitempty"`
	Vals  []uint64 `json:"v,omitempty"` // concretisation alternatives (Taken/Rest index into it)
	Aux   int      `json:"a,omitempty"`
}

type Violation struct {
	Property  string            `json:"property"`
	Harness   string            `json:"harness"`
	Assertion string            `json:"assertion"`
	Msg       string            `json:"msg"`
	Pos       string            `json:"pos"`
	Inputs    map[string]uint64 `json:"inputs"`
	Choices   map[string]int64  `json:"choices"`
	Decisions []Decision        `json:"decisions"`
	Replayed  string            `json:"replayed"` // "", "reproduced", "not-reproduced", "skipped"
	Known     string            `json:"known,omitempty"`
}

// Machine executes one path at a time. One Machine per worker.
type Machine struct {
	W    *World
	F    *sym.Factory
	S    *solver.Solver
	Spec *HarnessSpec

	globals  map[*ssa.Global]*Value
	initDone map[*ssa.Package]bool
	initBusy map[*ssa.Package]bool

	prefix []Decision
	trace  []Decision
	pos    int

	pcN       int
	choices   map[string]int64
	inputOrd  []string
	assertSeq int
	steps     int64
	depth     int

	reached  map[string]bool
	observed []string
	stubs    map[string]int
	funcs    map[*ssa.Function]int
	fresh    int

	violations []*Violation
	knownHit   map[string]bool
	inKnown    *sym.Term // disjunction of known-finding regions seen on this path (nil = none)

	// scheduler
	threads []*Thread
	cur     *Thread
	dead    bool
	preempt int

	threadWG     sync.WaitGroup
	pendingEnd   *pathEnd
	pendingPanic *targetPanic
	mutexes      map[*Value]*mutexState
	conds        map[*Value]*condState
	wgs          map[*Value]*wgState
	intrCache    map[*ssa.Function]intrinsicFn

	// pool model, time model etc.
	clock     *sym.Term
	clockNs   *sym.Term
	clockN    int
	poolItems map[*Value][]Value
	ufCache   map[string][]ufApp
	objIDs    map[*Value]int
	atEnd     []Value
	userState map[string]Value
	divCache  map[string][2]*sym.Term
	lastModel *Violation
	poolPuts  map[*Value]int
	atomicVals map[*Value]Value
	syncMaps  map[*Value]*Map
	digests   map[*Value]*[]*sym.Term
	i53ok     map[int]bool
	onceDone  map[*Value]bool
	curInstr  ssa.Instruction
	curFrame  *frame
}

type ufApp struct {
	arg Str
	res *sym.Term
}

type Thread struct {
	id      int
	wake    chan struct{}
	done    bool
	blocked func() bool // nil = runnable; else returns true when it can proceed
	why     string
	started bool
}

func (m *Machine) resetPath(prefix []Decision) {
	m.F = sym.NewFactory()
	m.S.NewPath()
	m.globals = map[*ssa.Global]*Value{}
	m.initDone = map[*ssa.Package]bool{}
	m.initBusy = map[*ssa.Package]bool{}
	m.prefix = prefix
	m.trace = make([]Decision, 0, len(prefix)+16)
	m.pos = 0
	m.pcN = 0
	m.choices = map[string]int64{}
	m.inputOrd = nil
	m.assertSeq = 0
	m.steps = 0
	m.depth = 0
	m.fresh = 0
	m.threads = nil
	m.cur = nil
	m.dead = false
	m.preempt = 0
	m.clock = nil
	m.clockNs = nil
	m.clockN = 0
	m.poolItems = map[*Value][]Value{}
	m.ufCache = map[string][]ufApp{}
	m.objIDs = map[*Value]int{}
	m.atEnd = nil
	m.inKnown = nil
	m.observed = nil
	m.userState = map[string]Value{}
	m.pendingEnd = nil
	m.pendingPanic = nil
	m.mutexes = map[*Value]*mutexState{}
	m.conds = nil
	m.wgs = map[*Value]*wgState{}
	m.divCache = map[string][2]*sym.Term{}
	m.poolPuts = map[*Value]int{}
	m.atomicVals = map[*Value]Value{}
	m.syncMaps = map[*Value]*Map{}
	m.digests = nil
	m.i53ok = nil
	m.onceDone = nil
}

func (m *Machine) freshName(prefix string) string {
	m.fresh++
	return fmt.Sprintf("%s_%d", prefix, m.fresh)
}

// nextPrescribed returns the next recorded decision when re-executing a prefix.
func (m *Machine) nextPrescribed(kind string) *Decision {
	if m.pos < len(m.prefix) {
		d := m.prefix[m.pos]
		if d.Kind != kind {
			panic(pathEnd{"diverged", fmt.Sprintf("replay divergence at decision %d: recorded %s, now %s", m.pos, d.Kind, kind)})
		}
		m.pos++
		m.trace = append(m.trace, d)
		return &m.trace[len(m.trace)-1]
	}
	return nil
}

func (m *Machine) record(d Decision) {
	if len(m.trace) >= m.Spec.MaxDecisions {
		panic(pathEnd{"depth", fmt.Sprintf("more than %d decisions on one path", m.Spec.MaxDecisions)})
	}
	m.trace = append(m.trace, d)
	m.pos++
}

func (m *Machine) inPrefix() bool { return m.pos < len(m.prefix) }

func (m *Machine) addPC(c *sym.Term) {
	if c.IsTrue() {
		return
	}
	m.pcN++
	m.S.Assert(m.F, c)
}

func (m *Machine) feasible(c *sym.Term) solver.Result {
	return m.S.Check(m.F, c, m.Spec.FeasMs)
}

// branch forks on a symbolic condition.
func (m *Machine) branch(c *sym.Term) bool {
	if c.IsConst() {
		return c.C == 1
	}
	if d := m.nextPrescribed("br"); d != nil {
		if d.Taken == 0 {
			m.addPC(c)
			return true
		}
		m.addPC(m.F.Not(c))
		return false
	}
	rt := m.feasible(c)
	if rt == solver.Unsat {
		m.record(Decision{Kind: "br", Taken: 1})
		m.addPC(m.F.Not(c))
		return false
	}
	rf := m.feasible(m.F.Not(c))
	if rf == solver.Unsat {
		m.record(Decision{Kind: "br", Taken: 0})
		m.addPC(c)
		return true
	}
	m.record(Decision{Kind: "br", Taken: 0, Rest: []int{1}})
	m.addPC(c)
	return true
}

// assume restricts the path; ends it when infeasible.
func (m *Machine) assume(c *sym.Term) {
	if c.IsConst() {
		if c.C == 0 {
			panic(pathEnd{"infeasible", "assume(false)"})
		}
		return
	}
	if d := m.nextPrescribed("as"); d != nil {
		m.addPC(c)
		return
	}
	if m.feasible(c) == solver.Unsat {
		panic(pathEnd{"infeasible", "assumption unsatisfiable"})
	}
	m.record(Decision{Kind: "as"})
	m.addPC(c)
}

// choose is an enumerated nondeterministic choice among n alternatives.
func (m *Machine) choose(kind string, n int) int {
	if n <= 0 {
		panic(pathEnd{"infeasible", "empty choice"})
	}
	if n == 1 {
		return 0
	}
	if d := m.nextPrescribed(kind); d != nil {
		return d.Taken
	}
	rest := make([]int, 0, n-1)
	for i := 1; i < n; i++ {
		rest = append(rest, i)
	}
	m.record(Decision{Kind: kind, Taken: 0, Rest: rest})
	return 0
}

// concretize enumerates the feasible values of t (up to max) and forks over them.
func (m *Machine) concretize(t *sym.Term, what string) uint64 {
	if t.IsConst() {
		return t.C
	}
	if d := m.nextPrescribed("cz"); d != nil {
		v := d.Vals[d.Taken]
		m.addPC(m.F.Eq(t, m.F.Const(t.Sort, v)))
		return v
	}
	max := m.Spec.ConcretizeMax
	var vals []uint64
	var block *sym.Term = m.F.True()
	for {
		r, model := m.S.CheckModel(m.F, m.F.And(block, m.F.Eq(m.F.Var("cz_probe_"+fmt.Sprint(t.ID), t.Sort), t)), m.Spec.FeasMs*5, []*sym.Term{m.F.Var("cz_probe_"+fmt.Sprint(t.ID), t.Sort)})
		if r == solver.Unsat {
			break
		}
		if r == solver.Unknown {
			panic(pathEnd{"unknown", "solver unknown while concretising " + what})
		}
		v := model["cz_probe_"+fmt.Sprint(t.ID)]
		vals = append(vals, v)
		if len(vals) > max {
			panic(pathEnd{"unwind", fmt.Sprintf("more than %d feasible values while concretising %s", max, what)})
		}
		block = m.F.And(block, m.F.Not(m.F.Eq(t, m.F.Const(t.Sort, v))))
	}
	if len(vals) == 0 {
		panic(pathEnd{"infeasible", "no feasible value for " + what})
	}
	sort.Slice(vals, func(i, j int) bool { return vals[i] < vals[j] })
	rest := make([]int, 0, len(vals)-1)
	for i := 1; i < len(vals); i++ {
		rest = append(rest, i)
	}
	m.record(Decision{Kind: "cz", Taken: 0, Rest: rest, Vals: vals})
	m.addPC(m.F.Eq(t, m.F.Const(t.Sort, vals[0])))
	return vals[0]
}

// concInt returns a path-concrete int for an integer value.
func (m *Machine) concInt(v Value, what string) int64 {
	t, ok := v.(*sym.Term)
	if !ok {
		panic(unsupported(fmt.Sprintf("integer expected for %s, got %T", what, v)))
	}
	if t.IsConst() {
		return t.Int64()
	}
	c := m.concretize(t, what)
	return m.F.Const(t.Sort, c).Int64()
}

// ---------- violations ----------

func (m *Machine) modelNow(extra *sym.Term) (solver.Result, map[string]uint64) {
	return m.S.CheckModel(m.F, extra, m.Spec.AssertMs, m.F.Vars)
}

func (m *Machine) reportViolation(assertion, msg, pos string, model map[string]uint64) {
	in := map[string]uint64{}
	for k, v := range model {
		if strings.HasPrefix(k, "v_") {
			in[k[2:]] = v
		}
	}
	ch := map[string]int64{}
	for k, v := range m.choices {
		ch[k] = v
	}
	v := &Violation{
		Harness: m.Spec.Entry, Assertion: assertion, Msg: msg, Pos: pos,
		Inputs: in, Choices: ch, Decisions: append([]Decision(nil), m.trace...),
	}
	m.violations = append(m.violations, v)
}

// check is verifAssert.
func (m *Machine) check(c *sym.Term, id string, pos string) {
	m.assertSeq++
	seq := m.assertSeq
	if m.inPrefix() {
		// already decided by the path that produced this prefix
		if d := m.prefix[m.pos]; d.Kind == "ac" && d.Aux == seq {
			m.pos++
			m.trace = append(m.trace, d)
			m.addPC(c)
		}
		return
	}
	m.W.noteAssertion(m.Spec.Entry, id)
	if c.IsTrue() {
		m.W.noteTrivial(m.Spec.Entry, id)
		return
	}
	neg := m.F.Not(c)
	var r solver.Result
	var model map[string]uint64
	if c.IsFalse() {
		r, model = m.modelNow(nil)
	} else {
		r, model = m.modelNow(neg)
	}
	if r == solver.Unknown {
		// portfolio on a stand-alone script
		script := m.S.Script(m.F, neg)
		pr, who := solver.Portfolio(script, m.W.Portfolio, m.W.PortfolioTimeout)
		m.W.notePortfolio(who, pr)
		switch pr {
		case solver.Unsat:
			r = solver.Unsat
		case solver.Sat:
			// get a model from a fresh incremental run with a long timeout
			r2, mod2 := m.S.CheckModel(m.F, neg, int(m.W.PortfolioTimeout.Milliseconds()), m.F.Vars)
			if r2 == solver.Sat {
				r, model = r2, mod2
			} else {
				panic(pathEnd{"unknown", "portfolio says sat but no model for assertion " + id})
			}
		default:
			panic(pathEnd{"unknown", "solver unknown on assertion " + id})
		}
	}
	if r == solver.Unsat {
		m.W.noteDischarged(m.Spec.Entry, id)
		return
	}
	m.reportViolation(id, "assertion "+id+" fails", pos, model)
	// continue on the side where the assertion holds
	if c.IsFalse() || m.feasible(c) == solver.Unsat {
		panic(pathEnd{"violation", id})
	}
	m.record(Decision{Kind: "ac", Aux: seq})
	m.addPC(c)
}

// goPanic builds a Go run-time panic value.
func (m *Machine) goPanic(msg string) targetPanic {
	msg = strings.TrimPrefix(msg, "runtime error: ")
	pos := ""
	if m.curInstr != nil && m.curFrame != nil {
		pos = m.position(m.curInstr.Pos()) + " in " + m.curFrame.fn.String()
		if f := m.curFrame.caller; f != nil {
			pos += " <- " + f.fn.String()
		}
	}
	return targetPanic{v: Iface{T: m.W.runtimeErrorString, V: Str{S: msg}}, pos: pos}
}

func (m *Machine) position(p token.Pos) string {
	if !p.IsValid() {
		return "?"
	}
	pp := m.W.Prog.Fset.Position(p)
	return fmt.Sprintf("%s:%d", strings.TrimPrefix(pp.Filename, "/repo/"), pp.Line)
}

var _ = types.Identical
