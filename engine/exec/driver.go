package exec

import (
	"fmt"
	"os"
	"runtime/debug"
	"sort"
	"strings"
	"sync"
	"sync/atomic"
	"time"

	"golang.org/x/tools/go/ssa"

	"verif/engine/solver"
)

// HarnessResult aggregates one harness exploration.
type HarnessResult struct {
	Entry       string
	Spec        *HarnessSpec
	Paths       int64
	Decisions   int64
	Ends        map[string]int64
	EndSamples  map[string]string
	Violations  []*Violation
	Reached     map[string]bool
	Stubs       map[string]int
	Funcs       map[string]int
	Samples     []map[string]interface{}
	Witness     *Violation // inputs of one completed path, for native replay
	Seconds     float64
	Incomplete  string
	KnownSeen   map[string]bool
	Steps       int64
}

type job struct{ prefix []Decision }

type explorer struct {
	w       *World
	spec    *HarnessSpec
	entry   *ssa.Function
	mu      sync.Mutex
	queue   []job
	idle    int32
	active  int32
	res     *HarnessResult
	stop    int32
	started time.Time
	cond    *sync.Cond
}

func (w *World) Explore(spec *HarnessSpec, entry *ssa.Function) *HarnessResult {
	ex := &explorer{w: w, spec: spec, entry: entry, started: time.Now()}
	ex.cond = sync.NewCond(&ex.mu)
	ex.res = &HarnessResult{Entry: spec.Entry, Spec: spec, Ends: map[string]int64{}, EndSamples: map[string]string{},
		Reached: map[string]bool{}, Stubs: map[string]int{}, Funcs: map[string]int{}, KnownSeen: map[string]bool{}}
	ex.queue = []job{{}}
	n := w.Workers
	if n <= 0 {
		n = 1
	}
	var wg sync.WaitGroup
	for i := 0; i < n; i++ {
		wg.Add(1)
		go func(id int) {
			defer wg.Done()
			ex.worker(id)
		}(i)
	}
	doneCh := make(chan struct{})
	go func() {
		tk := time.NewTicker(15 * time.Second)
		defer tk.Stop()
		for {
			select {
			case <-doneCh:
				return
			case <-tk.C:
				ex.mu.Lock()
				g := &solver.Global
				fmt.Fprintf(os.Stderr, "[gosym]   ... %s: %d paths, queue %d, active %d, ends=%v, queries=%d unknown=%d restarts=%d solver=%.0fs\n",
					spec.Entry, ex.res.Paths, len(ex.queue), ex.active, ex.res.Ends, atomic.LoadInt64(&g.Queries), atomic.LoadInt64(&g.Unknown), atomic.LoadInt64(&g.Restarts), float64(atomic.LoadInt64(&g.TimeNanos))/1e9)
				ex.mu.Unlock()
			}
		}
	}()
	wg.Wait()
	close(doneCh)
	ex.res.Seconds = time.Since(ex.started).Seconds()
	return ex.res
}

func (ex *explorer) take() (job, bool) {
	ex.mu.Lock()
	defer ex.mu.Unlock()
	for {
		if atomic.LoadInt32(&ex.stop) != 0 {
			return job{}, false
		}
		if len(ex.queue) > 0 {
			j := ex.queue[len(ex.queue)-1]
			ex.queue = ex.queue[:len(ex.queue)-1]
			ex.active++
			return j, true
		}
		if ex.active == 0 {
			ex.cond.Broadcast()
			return job{}, false
		}
		ex.idle++
		ex.cond.Wait()
		ex.idle--
	}
}

func (ex *explorer) finishJob() {
	ex.mu.Lock()
	ex.active--
	if ex.active == 0 && len(ex.queue) == 0 {
		ex.cond.Broadcast()
	}
	ex.mu.Unlock()
}

func (ex *explorer) worker(id int) {
	sname := ex.spec.Solver
	if sname == "" {
		sname = "z3"
	}
	m := &Machine{W: ex.w, Spec: ex.spec, S: solver.New(sname),
		reached: map[string]bool{}, stubs: map[string]int{}, funcs: map[*ssa.Function]int{},
		intrCache: map[*ssa.Function]intrinsicFn{}, knownHit: map[string]bool{}}
	m.S.IntMode = ex.spec.Arith == "int"
	defer m.S.Close()
	for {
		j, ok := ex.take()
		if !ok {
			break
		}
		ex.runJob(m, j)
		ex.finishJob()
	}
	// merge per-worker stats
	ex.mu.Lock()
	for k, v := range m.reached {
		if v {
			ex.res.Reached[k] = true
		}
	}
	for k, v := range m.stubs {
		ex.res.Stubs[k] += v
	}
	for f, v := range m.funcs {
		ex.res.Funcs[f.String()] += v
	}
	for k := range m.knownHit {
		ex.res.KnownSeen[k] = true
	}
	ex.mu.Unlock()
}

func (ex *explorer) runJob(m *Machine, j job) {
	base := len(j.prefix)
	prefix := j.prefix
	for {
		if atomic.LoadInt32(&ex.stop) != 0 {
			return
		}
		end := m.runPath(ex.entry, prefix)
		ex.account(m, end)
		// donate work if others are idle
		trace := m.trace
		if atomic.LoadInt32(&ex.idle) > 0 {
			ex.mu.Lock()
			for ex.idle > int32(len(ex.queue)) {
				donated := false
				for i := base; i < len(trace); i++ {
					if len(trace[i].Rest) > 0 {
						np := make([]Decision, i+1)
						for k := 0; k < i; k++ {
							np[k] = trace[k]
							np[k].Rest = nil
						}
						np[i] = trace[i]
						np[i].Taken = trace[i].Rest[0]
						np[i].Rest = nil
						trace[i].Rest = trace[i].Rest[1:]
						ex.queue = append(ex.queue, job{prefix: np})
						donated = true
						break
					}
				}
				if !donated {
					break
				}
			}
			ex.cond.Broadcast()
			ex.mu.Unlock()
		}
		// backtrack
		i := len(trace) - 1
		for ; i >= base; i-- {
			if len(trace[i].Rest) > 0 {
				break
			}
		}
		if i < base {
			return
		}
		np := make([]Decision, i+1)
		copy(np, trace[:i+1])
		np[i].Taken = np[i].Rest[0]
		np[i].Rest = append([]int(nil), np[i].Rest[1:]...)
		prefix = np
	}
}

func (ex *explorer) account(m *Machine, end pathEnd) {
	ex.mu.Lock()
	defer ex.mu.Unlock()
	r := ex.res
	r.Paths++
	r.Decisions += int64(len(m.trace))
	r.Steps += m.steps
	r.Ends[end.kind]++
	if _, ok := r.EndSamples[end.kind]; !ok && end.msg != "" {
		r.EndSamples[end.kind] = end.msg
	}
	if len(m.violations) > 0 {
		r.Violations = append(r.Violations, m.violations...)
		m.violations = nil
		if ex.spec.KnownPhase != "" {
			atomic.StoreInt32(&ex.stop, 1)
		}
		if len(r.Violations) >= 20 {
			atomic.StoreInt32(&ex.stop, 1)
			r.Incomplete = "stopped after 20 violations"
		}
	}
	if end.kind == "done" && (r.Witness == nil || len(r.Samples) < 3) && m.lastModel != nil {
		v := &Violation{Harness: ex.spec.Entry, Inputs: m.lastModel.Inputs, Choices: m.lastModel.Choices}
		if r.Witness == nil {
			r.Witness = v
		}
		r.Samples = append(r.Samples, map[string]interface{}{"harness": ex.spec.Entry, "inputs": v.Inputs, "choices": v.Choices, "decisions": len(m.trace), "observed": m.observed})
	}
	if r.Ends["unsupported"]+r.Ends["engine"]+r.Ends["diverged"] >= 20 && r.Incomplete == "" {
		atomic.StoreInt32(&ex.stop, 1)
		r.Incomplete = "stopped after 20 unsupported/engine path ends"
	}
	if r.Paths >= ex.spec.MaxPaths {
		atomic.StoreInt32(&ex.stop, 1)
		r.Incomplete = fmt.Sprintf("path budget %d exhausted", ex.spec.MaxPaths)
	}
	if time.Since(ex.started) > time.Duration(ex.spec.TimeBudgetS)*time.Second {
		atomic.StoreInt32(&ex.stop, 1)
		r.Incomplete = fmt.Sprintf("time budget %ds exhausted", ex.spec.TimeBudgetS)
	}
}

// runPath executes the harness once along the given decision prefix.
func (m *Machine) runPath(entry *ssa.Function, prefix []Decision) (end pathEnd) {
	m.resetPath(prefix)
	m.lastModel = nil
	defer func() {
		if len(m.threads) > 1 {
			m.killThreads()
		}
	}()
	func() {
		defer func() {
			r := recover()
			if r == nil {
				end = pathEnd{"done", ""}
				return
			}
			switch r := r.(type) {
			case pathEnd:
				end = r
			case targetPanic:
				end = pathEnd{"gopanic", m.panicString(r.v) + " at " + r.pos}
			default:
				end = pathEnd{"engine", fmt.Sprintf("%v\n%s", r, debug.Stack())}
			}
		}()
		m.callSSA(nil, 0, entry, nil, nil)
		for _, f := range m.atEnd {
			m.call(nil, 0, f, nil)
		}
	}()
	switch end.kind {
	case "gopanic":
		if !m.Spec.PanicOK && !m.inPrefix() {
			m.violationAtEnd("panic", end.msg)
			end.kind = "violation"
		}
	case "deadlock":
		if !m.Spec.DeadlockOK && !m.inPrefix() {
			m.violationAtEnd("deadlock", end.msg)
			end.kind = "violation"
		}
	case "unwind":
		if m.Spec.UnwindViol && !m.inPrefix() {
			m.violationAtEnd("nontermination", end.msg)
			end.kind = "violation"
		}
	case "done":
		// keep a model of the completed path for samples / native witness replay
		if m.W.wantModel() {
			if r, model := m.modelNow(nil); r == solver.Sat {
				v := &Violation{}
				m.fillInputs(v, model)
				m.lastModel = v
			}
		}
	}
	return end
}

func (m *Machine) violationAtEnd(kind, msg string) {
	r, model := m.modelNow(nil)
	if r != solver.Sat {
		// path condition not confirmed satisfiable: cannot report
		m.W.noteUnconfirmed(kind + ": " + msg)
		return
	}
	m.reportViolation(kind, msg, "", model)
}

func (m *Machine) fillInputs(v *Violation, model map[string]uint64) {
	v.Inputs = map[string]uint64{}
	for k, x := range model {
		if len(k) > 2 && k[:2] == "v_" {
			v.Inputs[k[2:]] = x
		}
	}
	v.Choices = map[string]int64{}
	for k, x := range m.choices {
		v.Choices[k] = x
	}
}

var modelCounter int64

func (w *World) wantModel() bool {
	// sample models sparsely: first few paths, then every 64th
	n := atomic.AddInt64(&modelCounter, 1)
	return n <= 4 || n%64 == 0
}

func (w *World) noteUnconfirmed(msg string) {
	w.mu.Lock()
	w.poison["unconfirmed:"+msg] = msg
	w.mu.Unlock()
}

// ---------- top level ----------

type RunOutput struct {
	Results []*HarnessResult
	World   *World
}

func (w *World) RunAll(only string) ([]*HarnessResult, error) {
	var out []*HarnessResult
	for i := range w.SpecFile.Harnesses {
		h := &w.SpecFile.Harnesses[i]
		if only != "" && h.Entry != only {
			continue
		}
		entry, pkgPath, err := w.findEntry(h)
		if err != nil {
			return nil, err
		}
		hs, err := w.effective(h)
		if err != nil {
			return nil, err
		}
		hs.Pkg = pkgPath
		if err := w.setHarnessOverrides(h); err != nil {
			return nil, err
		}
		fmt.Fprintf(os.Stderr, "[gosym] %s %s (%s) ...\n", w.SpecFile.Property, h.Entry, w.Tier)
		atomic.StoreInt64(&modelCounter, 0)
		res := w.Explore(hs, entry)
		fmt.Fprintf(os.Stderr, "[gosym] %s: %d paths, %d decisions, %.1fs, ends=%v viol=%d %s\n", h.Entry, res.Paths, res.Decisions, res.Seconds, res.Ends, len(res.Violations), res.Incomplete)
		for k, v := range res.EndSamples {
			if k != "done" && k != "infeasible" {
				fmt.Fprintf(os.Stderr, "[gosym]   %s: %s\n", k, v)
			}
		}
		w.mu.Lock()
		for k, v := range w.poison {
			msg := v
			if i := strings.Index(msg, "\n"); i > 0 && os.Getenv("GOSYM_DEBUG") == "" {
				msg = msg[:i]
			}
			fmt.Fprintf(os.Stderr, "[gosym]   init poison %s: %s\n", k, msg)
		}
		w.mu.Unlock()
		out = append(out, res)
		// confirm phase for known findings seen by this harness
		var ids []string
		for id := range res.KnownSeen {
			ids = append(ids, id)
		}
		sort.Strings(ids)
		for _, id := range ids {
			hs2 := *hs
			hs2.KnownPhase = "confirm:" + id
			hs2.MaxPaths = min64(hs.MaxPaths, 20000)
			res2 := w.Explore(&hs2, entry)
			res2.Entry = h.Entry + "#known:" + id
			fmt.Fprintf(os.Stderr, "[gosym] %s confirm %s: %d paths viol=%d\n", h.Entry, id, res2.Paths, len(res2.Violations))
			for _, v := range res2.Violations {
				v.Known = id
			}
			out = append(out, res2)
		}
	}
	return out, nil
}

func min64(a, b int64) int64 {
	if a < b {
		return a
	}
	return b
}
