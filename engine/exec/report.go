package exec

import (
	"bytes"
	"context"
	"encoding/json"
	"fmt"
	"os"
	osexec "os/exec"
	"path/filepath"
	"sort"
	"strings"
	"sync/atomic"
	"time"

	"verif/engine/solver"
)

type Options struct {
	Tier     string
	Only     string
	Workers  int
	Root     string
	Evidence string
	NoReplay bool
	Seed     int64
}

type replayFile struct {
	Harness   string            `json:"harness"`
	Assertion string            `json:"assertion"`
	Msg       string            `json:"msg"`
	Inputs    map[string]uint64 `json:"inputs"`
	Choices   map[string]int64  `json:"choices"`
	Params    map[string]int64  `json:"params"`
	Float     string            `json:"float"`
	Pkg       string            `json:"pkg"`
	Property  string            `json:"property"`
	Decisions []Decision        `json:"decisions,omitempty"`
	Retries   int               `json:"retries,omitempty"`
	Packages  []string          `json:"packages,omitempty"`
}

type replayOutcome struct {
	failed  map[string]bool
	reached map[string]bool
	panicked string
	stopped string
	ran     bool
	timeout bool
	crash   bool
}

// Main runs one property spec and returns the process exit code.
func Main(spec *Spec, opt Options) int {
	t0 := time.Now()
	w, err := Load(spec, filepath.Join(opt.Root, "harness"))
	if err != nil {
		fmt.Fprintln(os.Stderr, "load:", err)
		fmt.Printf("INCONCLUSIVE property=%s reason=load-failed\n", spec.Property)
		return 2
	}
	replayExtraPkgs = spec.Packages
	w.Tier = opt.Tier
	w.Workers = opt.Workers
	w.Seed = opt.Seed
	if err := w.LoadKnown(filepath.Join(opt.Root, "known_findings.json")); err != nil {
		fmt.Fprintln(os.Stderr, "known findings:", err)
		return 2
	}
	fmt.Fprintf(os.Stderr, "[gosym] loaded %d root packages in %.1fs\n", len(w.Pkgs), w.LoadSeconds)
	results, err := w.RunAll(opt.Only)
	if err != nil {
		fmt.Fprintln(os.Stderr, "run:", err)
		fmt.Printf("INCONCLUSIVE property=%s reason=%v\n", spec.Property, err)
		return 2
	}

	// ----- collect replays -----
	replayDir := filepath.Join(opt.Root, "evidence", "replay")
	os.MkdirAll(replayDir, 0o755)
	type pending struct {
		path string
		v    *Violation
		res  *HarnessResult
		wit  bool
	}
	var pend []pending
	nrep := 0
	for _, r := range results {
		// de-duplicate violations by assertion id: replay at most 3 per id
		perID := map[string]int{}
		for _, v := range r.Violations {
			perID[v.Assertion]++
			if perID[v.Assertion] > 3 {
				v.Replayed = "skipped"
				continue
			}
			nrep++
			p := filepath.Join(replayDir, fmt.Sprintf("%s-%s-%d.json", spec.Property, strings.Split(r.Entry, "#")[0], nrep))
			writeReplay(p, spec.Property, r, v)
			pend = append(pend, pending{p, v, r, false})
		}
		if r.Witness != nil && !strings.Contains(r.Entry, "#known:") {
			nrep++
			p := filepath.Join(replayDir, fmt.Sprintf("%s-%s-witness.json", spec.Property, r.Entry))
			writeReplay(p, spec.Property, r, r.Witness)
			pend = append(pend, pending{p, r.Witness, r, true})
		}
	}
	validated := 0
	replayNote := ""
	if !opt.NoReplay && len(pend) > 0 {
		byPkg := map[string][]string{}
		outcomes := map[string]*replayOutcome{}
		for _, p := range pend {
			if !p.wit && (p.v.Assertion == "nontermination" || p.v.Assertion == "deadlock") {
				// a hang kills the whole test process: one process per replay, short deadline
				rel := "./" + strings.TrimPrefix(p.res.Spec.Pkg, "github.com/thanos-io/thanos/")
				o, note := NativeReplay(opt.Root, rel, []string{p.path}, 30*time.Second)
				for k, v := range o {
					outcomes[k] = v
				}
				if strings.Contains(note, "build of the harness failed") || strings.Contains(note, "overlay:") {
					replayNote += note + "; "
					continue
				}
				if _, ok := outcomes[p.path]; !ok {
					outcomes[p.path] = &replayOutcome{failed: map[string]bool{}, reached: map[string]bool{}, timeout: true}
				}
				continue
			}
			byPkg[p.res.Spec.Pkg] = append(byPkg[p.res.Spec.Pkg], p.path)
		}
		for pkg, paths := range byPkg {
			o, note := w.nativeReplay(opt.Root, pkg, paths)
			if note != "" {
				replayNote += note + "; "
			}
			for k, v := range o {
				outcomes[k] = v
			}
		}
		for _, p := range pend {
			o := outcomes[p.path]
			if p.wit {
				if o != nil && o.ran && len(o.failed) == 0 && o.panicked == "" && !o.crash {
					validated++
					p.v.Replayed = "reproduced"
				} else {
					p.v.Replayed = "not-reproduced"
					det := "no outcome"
					if o != nil {
						det = fmt.Sprintf("failed=%v panic=%q stop=%q crash=%v timeout=%v", keys(o.failed), o.panicked, o.stopped, o.crash, o.timeout)
					}
					replayNote += fmt.Sprintf("witness of %s did not replay cleanly natively (%s); ", p.res.Entry, det)
				}
				continue
			}
			p.v.Replayed = "not-reproduced"
			if o == nil {
				continue
			}
			switch p.v.Assertion {
			case "panic":
				if o.panicked != "" || o.crash {
					p.v.Replayed = "reproduced"
				}
			case "nontermination", "deadlock":
				if o.timeout || o.crash {
					p.v.Replayed = "reproduced"
				}
			default:
				if o.failed[p.v.Assertion] {
					p.v.Replayed = "reproduced"
				}
			}
			if p.v.Replayed == "reproduced" {
				validated++
			}
		}
	}

	// ----- verdict -----
	exit := 0
	var lines []string
	inconclusive := []string{}
	partials := []string{}
	totalViol := 0
	for _, r := range results {
		isKnownRun := strings.Contains(r.Entry, "#known:")
		for _, v := range r.Violations {
			if v.Replayed == "skipped" {
				continue
			}
			rp := ""
			for _, p := range pend {
				if p.v == v {
					rp = p.path
				}
			}
			switch {
			case opt.NoReplay:
				if isKnownRun {
					lines = append(lines, fmt.Sprintf("KNOWN-FINDING: property=%s %s (%s; not replayed)", spec.Property, v.Known, w.knownWhat(spec.Property, v.Known)))
				} else {
					totalViol++
					lines = append(lines, fmt.Sprintf("VIOLATION property=%s replay=%s", spec.Property, rp))
					fmt.Fprintf(os.Stderr, "[gosym] violation (not replayed) %s/%s: %s inputs=%v choices=%v\n", r.Entry, v.Assertion, v.Msg, v.Inputs, v.Choices)
					exit = 1
				}
			case v.Replayed == "reproduced" && isKnownRun:
				lines = append(lines, fmt.Sprintf("KNOWN-FINDING: property=%s %s (%s)", spec.Property, v.Known, w.knownWhat(spec.Property, v.Known)))
			case v.Replayed == "reproduced":
				totalViol++
				lines = append(lines, fmt.Sprintf("VIOLATION property=%s replay=%s", spec.Property, rp))
				fmt.Fprintf(os.Stderr, "[gosym] violation %s/%s: %s inputs=%v choices=%v\n", r.Entry, v.Assertion, v.Msg, v.Inputs, v.Choices)
				exit = 1
			default:
				inconclusive = append(inconclusive, fmt.Sprintf("unconfirmed counterexample %s/%s (%s) replay=%s", r.Entry, v.Assertion, v.Msg, rp))
			}
		}
		if isKnownRun {
			continue
		}
		for k, n := range r.Ends {
			switch k {
			case "done", "infeasible", "crash", "violation":
			default:
				inconclusive = append(inconclusive, fmt.Sprintf("%s: %d paths ended %s (%s)", r.Entry, n, k, r.EndSamples[k]))
			}
		}
		partial := r.Spec.PartialOK && strings.HasPrefix(r.Incomplete, "time budget")
		if partial {
			partials = append(partials, fmt.Sprintf("%s: %s after %d paths (%d completed): the bound of this tier was not exhausted; the verdict covers the explored paths only", r.Entry, r.Incomplete, r.Paths, r.Ends["done"]))
		} else if r.Incomplete != "" {
			inconclusive = append(inconclusive, r.Entry+": "+r.Incomplete)
		}
		for _, wit := range r.Spec.Witnesses {
			if !r.Reached[wit] {
				if partial {
					partials = append(partials, fmt.Sprintf("%s: reachability witness %q not reached in the explored part", r.Entry, wit))
					continue
				}
				inconclusive = append(inconclusive, fmt.Sprintf("%s: reachability witness %q not reached (vacuity guard)", r.Entry, wit))
			}
		}
		if r.Ends["done"] == 0 && r.Ends["crash"] == 0 {
			inconclusive = append(inconclusive, r.Entry+": no path completed (vacuous)")
		}
	}
	w.mu.Lock()
	for k, v := range w.poison {
		if strings.HasPrefix(k, "unconfirmed:") {
			inconclusive = append(inconclusive, "unconfirmed end-of-path violation: "+v)
		}
	}
	w.mu.Unlock()
	if replayNote != "" {
		inconclusive = append(inconclusive, "replay: "+replayNote)
	}
	sort.Strings(lines)
	seen := map[string]bool{}
	for _, l := range lines {
		if strings.HasPrefix(l, "KNOWN-FINDING") {
			if seen[l] {
				continue
			}
			seen[l] = true
		}
		fmt.Println(l)
	}
	if exit == 0 && len(inconclusive) > 0 {
		exit = 2
	}
	for _, s := range inconclusive {
		fmt.Printf("INCONCLUSIVE property=%s %s\n", spec.Property, s)
	}
	for _, s := range partials {
		fmt.Printf("PARTIAL property=%s %s\n", spec.Property, s)
	}

	// ----- evidence -----
	if opt.Evidence != "" {
		writeEvidence(opt.Evidence, w, spec, opt, results, validated, totalViol, inconclusive, partials, time.Since(t0).Seconds())
	}
	if exit == 0 {
		fmt.Printf("OK property=%s tier=%s\n", spec.Property, opt.Tier)
	}
	return exit
}

func keys(m map[string]bool) []string {
	var k []string
	for x := range m {
		k = append(k, x)
	}
	sort.Strings(k)
	return k
}

func (w *World) knownWhat(prop, id string) string {
	for _, k := range w.known {
		if k.Property == prop && k.ID == id {
			return k.What
		}
	}
	return ""
}

func writeReplay(path, prop string, r *HarnessResult, v *Violation) {
	defer func() {
		// record the spec's harness packages so that a stand-alone replay overlays cross-package helpers too
		b, err := os.ReadFile(path)
		if err != nil {
			return
		}
		var rf replayFile
		if json.Unmarshal(b, &rf) == nil {
			rf.Packages = replayExtraPkgs
			nb, _ := json.MarshalIndent(rf, "", " ")
			os.WriteFile(path, nb, 0o644)
		}
	}()
	rf := replayFile{Harness: strings.Split(r.Entry, "#")[0], Assertion: v.Assertion, Msg: v.Msg, Inputs: v.Inputs, Choices: v.Choices,
		Params: r.Spec.Params, Float: r.Spec.Float, Pkg: r.Spec.Pkg, Property: prop, Decisions: v.Decisions, Retries: r.Spec.ReplayRetries}
	b, _ := json.MarshalIndent(rf, "", " ")
	os.WriteFile(path, b, 0o644)
}

// nativeReplay compiles the harness package natively (go test -overlay) and runs the replay files.
func (w *World) nativeReplay(root, pkgPath string, paths []string) (map[string]*replayOutcome, string) {
	rel := "./" + strings.TrimPrefix(pkgPath, "github.com/thanos-io/thanos/")
	replayExtraPkgs = w.SpecFile.Packages
	return NativeReplay(root, rel, paths, 240*time.Second)
}

// replayExtraPkgs: harness packages to overlay in addition to the one under test (cross-package helpers).
var replayExtraPkgs []string

func NativeReplay(root, rel string, paths []string, timeout time.Duration) (map[string]*replayOutcome, string) {
	out := map[string]*replayOutcome{}
	ov, err := HarnessOverlay(filepath.Join(root, "harness"), []string{rel}, true)
	if err != nil {
		return out, "overlay: " + err.Error()
	}
	for _, extra := range replayExtraPkgs {
		if strings.TrimPrefix(extra, "./") == strings.TrimPrefix(rel, "./") {
			continue
		}
		ov2, err := HarnessOverlay(filepath.Join(root, "harness"), []string{extra}, false)
		if err != nil {
			return out, "overlay: " + err.Error()
		}
		for k, v := range ov2 {
			ov[k] = v
		}
	}
	// generate the test driver: all exported Verif* funcs in harness files
	var entries []string
	pkgName := ""
	for virt, real := range ov {
		if strings.HasSuffix(virt, "_test.go") || strings.HasSuffix(virt, "zz_verif_rt.go") {
			continue
		}
		if filepath.Dir(virt) != filepath.Join(repoDir, strings.TrimPrefix(rel, "./")) {
			continue // helper files of other harness packages
		}
		b, _ := os.ReadFile(real)
		for _, l := range strings.Split(string(b), "\n") {
			if strings.HasPrefix(l, "package ") && pkgName == "" {
				pkgName = strings.TrimSpace(strings.TrimPrefix(l, "package "))
			}
			if strings.HasPrefix(l, "func Verif") && strings.Contains(l, "()") {
				name := strings.TrimPrefix(l, "func ")
				name = name[:strings.Index(name, "(")]
				entries = append(entries, name)
			}
		}
	}
	sort.Strings(entries)
	var tb strings.Builder
	fmt.Fprintf(&tb, "package %s\n\nimport (\n\t\"fmt\"\n\t\"os\"\n\t\"strings\"\n\t\"testing\"\n)\n\n", pkgName)
	tb.WriteString("func TestVerifReplay(t *testing.T) {\n\tentries := map[string]func(){\n")
	for _, e := range entries {
		fmt.Fprintf(&tb, "\t\t%q: %s,\n", e, e)
	}
	tb.WriteString(`	}
	for _, p := range strings.Split(os.Getenv("VERIF_REPLAYS"), ",") {
		if p == "" {
			continue
		}
		verifReset(p)
		fmt.Printf("VERIF-BEGIN %s\n", p)
		f := entries[verifRT.f.Harness]
		if f == nil {
			fmt.Printf("VERIF-NOENTRY %s\n", verifRT.f.Harness)
			continue
		}
		retries := 0
		if verifRT.f.Assertion != "" {
			retries = verifRT.f.Retries
		}
		for salt := 0; salt <= retries; salt++ {
			verifSalt = salt
			hit := false
			func() {
				defer func() {
					if r := recover(); r != nil {
						if s, ok := r.(verifStop); ok {
							if salt == retries {
								fmt.Printf("VERIF-STOP %s\n", s.why)
							}
							return
						}
						hit = true
						fmt.Printf("VERIF-PANIC %v\n", r)
					}
				}()
				f()
			}()
			for _, id := range verifRT.failed {
				if id == verifRT.f.Assertion {
					hit = true
				}
			}
			if hit {
				fmt.Printf("VERIF-SALT %d\n", salt)
				break
			}
			if salt < retries {
				verifRT.failed = nil
			}
		}
		verifSalt = 0
		for id := range verifRT.reached {
			fmt.Printf("VERIF-REACHED %s\n", id)
		}
		fmt.Printf("VERIF-END %s\n", p)
	}
}
`)
	tmp, err := os.MkdirTemp("", "verif-replay-")
	if err != nil {
		return out, err.Error()
	}
	defer os.RemoveAll(tmp)
	testFile := filepath.Join(tmp, "zz_verif_replay_test.go")
	os.WriteFile(testFile, []byte(tb.String()), 0o644)
	ov[filepath.Join(repoDir, strings.TrimPrefix(rel, "./"), "zz_verif_replay_test.go")] = testFile
	ovJSON, _ := json.Marshal(map[string]interface{}{"Replace": ov})
	ovPath := filepath.Join(tmp, "overlay.json")
	os.WriteFile(ovPath, ovJSON, 0o644)

	ctx, cancel := context.WithTimeout(context.Background(), timeout+180*time.Second)
	defer cancel()
	cmd := osexec.CommandContext(ctx, "go", "test", "-tags", "slicelabels", "-vet=off", "-count=1", "-overlay", ovPath,
		"-run", "^TestVerifReplay$", "-timeout", fmt.Sprint(timeout), "-v", rel)
	cmd.Dir = repoDir
	cmd.Env = append(env(), "VERIF_REPLAYS="+strings.Join(paths, ","), "GOCACHE="+goCache())
	var buf bytes.Buffer
	cmd.Stdout = &buf
	cmd.Stderr = &buf
	runErr := cmd.Run()
	txt := buf.String()
	note := ""
	if strings.Contains(txt, "[build failed]") || strings.Contains(txt, "[setup failed]") {
		tail := txt
		if len(tail) > 1500 {
			tail = tail[:1500]
		}
		return out, "native build of the harness failed: " + tail
	}
	var cur *replayOutcome
	curPath := ""
	for _, l := range strings.Split(txt, "\n") {
		l = strings.TrimSpace(l)
		switch {
		case strings.HasPrefix(l, "VERIF-BEGIN "):
			curPath = strings.TrimPrefix(l, "VERIF-BEGIN ")
			cur = &replayOutcome{failed: map[string]bool{}, reached: map[string]bool{}}
			out[curPath] = cur
		case strings.HasPrefix(l, "VERIF-END "):
			if cur != nil {
				cur.ran = true
			}
			cur = nil
		case cur == nil:
		case strings.HasPrefix(l, "VERIF-ASSERT-FAILED "):
			cur.failed[strings.TrimPrefix(l, "VERIF-ASSERT-FAILED ")] = true
		case strings.HasPrefix(l, "VERIF-PANIC "):
			cur.panicked = strings.TrimPrefix(l, "VERIF-PANIC ")
		case strings.HasPrefix(l, "VERIF-STOP "):
			cur.stopped = strings.TrimPrefix(l, "VERIF-STOP ")
		case strings.HasPrefix(l, "VERIF-REACHED "):
			cur.reached[strings.TrimPrefix(l, "VERIF-REACHED ")] = true
		case strings.HasPrefix(l, "panic: test timed out"):
			cur.timeout = true
		case strings.HasPrefix(l, "panic:") || strings.HasPrefix(l, "fatal error:"):
			cur.crash = true
			if cur.panicked == "" {
				cur.panicked = l
			}
		}
	}
	if cur != nil && runErr != nil && !cur.timeout && !cur.crash {
		// process died inside a replay
		if ctx.Err() != nil {
			cur.timeout = true
		}
	}
	if len(out) == 0 {
		tail := txt
		if len(tail) > 1500 {
			tail = tail[len(tail)-1500:]
		}
		note = "native replay produced no outcome: " + tail
	}
	return out, note
}

func goCache() string {
	if c := os.Getenv("GOCACHE"); c != "" {
		return c
	}
	h, _ := os.UserCacheDir()
	return filepath.Join(h, "go-build")
}

func writeEvidence(path string, w *World, spec *Spec, opt Options, results []*HarnessResult, validated, violations int, inconclusive, partials []string, wall float64) {
	var states, transitions, steps int64
	samples := []interface{}{}
	funcs := map[string]int{}
	stubs := map[string]int{}
	witnesses := map[string]bool{}
	ends := map[string]int64{}
	bounds := map[string]interface{}{}
	perHarness := []interface{}{}
	for _, r := range results {
		states += r.Paths
		transitions += r.Decisions
		steps += r.Steps
		for _, s := range r.Samples {
			if len(samples) < 6 {
				samples = append(samples, s)
			}
		}
		for _, v := range r.Violations {
			if len(samples) < 10 {
				samples = append(samples, map[string]interface{}{"harness": r.Entry, "violation": v.Assertion, "inputs": v.Inputs, "choices": v.Choices, "replayed": v.Replayed})
			}
		}
		for k, v := range r.Funcs {
			funcs[k] += v
		}
		for k, v := range r.Stubs {
			stubs[k] += v
		}
		for _, wn := range r.Spec.Witnesses {
			witnesses[r.Entry+"/"+wn] = r.Reached[wn]
		}
		for k, v := range r.Ends {
			ends[k] += v
		}
		b := map[string]interface{}{"params": r.Spec.Params, "unwind": r.Spec.Unwind, "max_decisions": r.Spec.MaxDecisions,
			"concretize_max": r.Spec.ConcretizeMax, "float": r.Spec.Float, "sched": r.Spec.Sched, "maporder": r.Spec.MapOrder, "sort": r.Spec.Sort}
		if r.Spec.Sched == "T1" {
			b["preempt"] = r.Spec.Preempt
			b["max_threads"] = r.Spec.MaxThreads
		}
		bounds[r.Entry] = b
		perHarness = append(perHarness, map[string]interface{}{"entry": r.Entry, "paths": r.Paths, "decisions": r.Decisions,
			"seconds": r.Seconds, "ends": r.Ends, "violations": len(r.Violations), "incomplete": r.Incomplete})
	}
	if len(samples) == 0 {
		samples = append(samples, map[string]interface{}{"note": "no completed path produced a model"})
	}
	// keep the function list readable: top 60 by calls
	type kv struct {
		k string
		v int
	}
	var fl []kv
	for k, v := range funcs {
		fl = append(fl, kv{k, v})
	}
	sort.Slice(fl, func(i, j int) bool { return fl[i].v > fl[j].v })
	fenc := map[string]int{}
	for i, x := range fl {
		if i >= 80 {
			break
		}
		fenc[x.k] = x.v
	}
	w.mu.Lock()
	asserts := map[string]interface{}{}
	for k, v := range w.assertSeen {
		asserts[k] = map[string]int64{"checked": v, "unsat": w.assertDisch[k], "constant_true_on_path": w.assertTriv[k]}
	}
	poison := map[string]string{}
	for k, v := range w.poison {
		poison[k] = v
	}
	portfolio := map[string]int64{}
	for k, v := range w.portfolioBy {
		portfolio[k] = v
	}
	w.mu.Unlock()
	g := &solver.Global
	cov := map[string]interface{}{
		"states":                        states,
		"transitions":                   transitions,
		"traces_validated_against_impl": validated,
		"samples":                       samples,
		"functions_encoded":             fenc,
		"functions_encoded_total":       len(funcs),
		"ssa_instructions_executed":     steps,
		"bounds":                        bounds,
		"queries": map[string]int64{"total": atomic.LoadInt64(&g.Queries), "sat": atomic.LoadInt64(&g.Sat), "unsat": atomic.LoadInt64(&g.Unsat),
			"unknown": atomic.LoadInt64(&g.Unknown), "errors": atomic.LoadInt64(&g.Errors), "portfolio": atomic.LoadInt64(&g.Portfolio)},
		"assertions":        asserts,
		"solver_time_s":     float64(atomic.LoadInt64(&g.TimeNanos)) / 1e9,
		"solver_backends":   map[string]interface{}{"path": "z3 4.8.12 (-in, incremental)", "portfolio_on_unknown": w.Portfolio, "portfolio_answers": portfolio},
		"stubs_hit":         stubs,
		"witnesses":         witnesses,
		"path_ends":         ends,
		"per_harness":       perHarness,
		"init_poison":       poison,
		"inconclusive":      inconclusive,
		"outside_the_claim": spec.Outside,
		"load_s":            w.LoadSeconds,
		"exhaustive":        len(inconclusive) == 0 && len(partials) == 0,
		"partial":           partials,
		"explanation":       "states = feasible paths completed by the symbolic executor over the real SSA of /repo; transitions = decisions (solver-checked branches, concretisations, map orders, schedule choices); each assertion is discharged as path-condition AND NOT(property) = unsat",
	}
	if states == 0 {
		cov["states"] = 0
	}
	ev := map[string]interface{}{
		"property_id": spec.Property,
		"tier":        opt.Tier,
		"seed":        opt.Seed,
		"level":       "model_checking",
		"coverage":    cov,
		"assumptions": spec.Assumptions,
		"wall_s":      wall,
		"violations":  violations,
	}
	b, _ := json.MarshalIndent(ev, "", " ")
	os.MkdirAll(filepath.Dir(path), 0o755)
	os.WriteFile(path, b, 0o644)
}

// ReplayMain replays one recorded counterexample natively and reports whether it reproduces.
func ReplayMain(root, file string) int {
	b, err := os.ReadFile(file)
	if err != nil {
		fmt.Fprintln(os.Stderr, err)
		return 3
	}
	var rf replayFile
	if err := json.Unmarshal(b, &rf); err != nil {
		fmt.Fprintln(os.Stderr, err)
		return 3
	}
	rel := "./" + strings.TrimPrefix(rf.Pkg, "github.com/thanos-io/thanos/")
	replayExtraPkgs = rf.Packages
	out, note := NativeReplay(root, rel, []string{file}, 240*time.Second)
	if note != "" {
		fmt.Fprintln(os.Stderr, note)
	}
	o := out[file]
	if o == nil {
		fmt.Println("REPLAY no outcome")
		return 2
	}
	fmt.Printf("REPLAY harness=%s assertion=%s failed=%v panic=%q stop=%q timeout=%v crash=%v\n", rf.Harness, rf.Assertion, keys(o.failed), o.panicked, o.stopped, o.timeout, o.crash)
	rep := false
	switch rf.Assertion {
	case "panic":
		rep = o.panicked != "" || o.crash
	case "nontermination", "deadlock":
		rep = o.timeout || o.crash
	case "":
		rep = false
	default:
		rep = o.failed[rf.Assertion]
	}
	if rep {
		fmt.Printf("VIOLATION property=%s replay=%s\n", rf.Property, file)
		return 1
	}
	fmt.Println("REPLAY did not reproduce a violation")
	return 0
}
