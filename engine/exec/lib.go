package exec

import (
	"fmt"
	"go/token"
	"go/types"
	"math/bits"
	"strconv"
	"strings"

	"golang.org/x/tools/go/ssa"

	"verif/engine/solver"
	"verif/engine/sym"
)

// ---------- method lookup by name ----------

func (m *Machine) findMethod(t types.Type, name string) *ssa.Function {
	if t == nil {
		return nil
	}
	ms := m.W.Prog.MethodSets.MethodSet(t)
	for i := 0; i < ms.Len(); i++ {
		sel := ms.At(i)
		if sel.Obj().Name() == name {
			return m.W.Prog.MethodValue(sel)
		}
	}
	return nil
}

func (m *Machine) callMethod(fr *frame, pos token.Pos, recv Iface, name string, args ...Value) (Value, bool) {
	f := m.findMethod(recv.T, name)
	if f == nil {
		return nil, false
	}
	return m.callSSA(fr, pos, f, append([]Value{recv.V}, args...), nil), true
}

// ---------- errors.Is / errors.As ----------

func (m *Machine) errorsIs(fr *frame, pos token.Pos, err, target Iface) bool {
	if err.T == nil || target.T == nil {
		return err.T == nil && target.T == nil
	}
	comparable := types.Comparable(target.T)
	for {
		if comparable && typeIdentical(err.T, target.T) {
			if m.branch(m.equals(err.T, err.V, target.V)) {
				return true
			}
		}
		if f := m.findMethod(err.T, "Is"); f != nil && f.Signature.Params().Len() == 1 && f.Signature.Results().Len() == 1 {
			r := m.callSSA(fr, pos, f, []Value{err.V, target}, nil)
			if m.branch(r.(*sym.Term)) {
				return true
			}
		}
		f := m.findMethod(err.T, "Unwrap")
		if f == nil {
			return false
		}
		r := m.callSSA(fr, pos, f, []Value{err.V}, nil)
		switch r := r.(type) {
		case Iface:
			if r.T == nil {
				return false
			}
			err = r
		case Slice:
			for _, e := range r {
				if e.(Iface).T != nil && m.errorsIs(fr, pos, e.(Iface), target) {
					return true
				}
			}
			return false
		default:
			return false
		}
	}
}

func (m *Machine) errorsAs(fr *frame, pos token.Pos, err, target Iface) bool {
	if target.T == nil {
		panic(m.goPanic("errors: target cannot be nil"))
	}
	pt, ok := target.T.Underlying().(*types.Pointer)
	if !ok {
		panic(m.goPanic("errors: target must be a non-nil pointer"))
	}
	elem := pt.Elem()
	cell := target.V.(*Value)
	for err.T != nil {
		if it, ok := elem.Underlying().(*types.Interface); ok {
			if m.implements(err.T, it) {
				*cell = err
				return true
			}
		} else if typeIdentical(err.T, elem) {
			*cell = copyVal(err.V)
			return true
		}
		if f := m.findMethod(err.T, "As"); f != nil && f.Signature.Params().Len() == 1 {
			r := m.callSSA(fr, pos, f, []Value{err.V, target}, nil)
			if m.branch(r.(*sym.Term)) {
				return true
			}
		}
		f := m.findMethod(err.T, "Unwrap")
		if f == nil {
			return false
		}
		r := m.callSSA(fr, pos, f, []Value{err.V}, nil)
		switch r := r.(type) {
		case Iface:
			err = r
		case Slice:
			for _, e := range r {
				if e.(Iface).T != nil && m.errorsAs(fr, pos, e.(Iface), target) {
					return true
				}
			}
			return false
		default:
			return false
		}
	}
	return false
}

// ---------- fmt mini-formatter ----------

// fmtArg renders one operand. ok=false means "cannot render" (opaque).
func (m *Machine) fmtArg(fr *frame, pos token.Pos, verb byte, a Value, depth int) (Str, bool) {
	if depth > 4 {
		return Str{}, false
	}
	itf, isI := a.(Iface)
	if isI {
		if itf.T == nil {
			if verb == 'd' {
				return Str{S: "%!d(<nil>)"}, true
			}
			return Str{S: "<nil>"}, true
		}
		if verb == 'v' || verb == 's' || verb == 'q' {
			if _, isOpq := itf.V.(Opaque); !isOpq {
				if f := m.findMethod(itf.T, "Error"); f != nil && f.Signature.Params().Len() == 0 {
					s := m.callSSA(fr, pos, f, []Value{itf.V}, nil).(Str)
					return m.quoteIf(verb, s)
				}
				if f := m.findMethod(itf.T, "String"); f != nil && f.Signature.Params().Len() == 0 && f.Signature.Results().Len() == 1 {
					if s, ok := m.callSSA(fr, pos, f, []Value{itf.V}, nil).(Str); ok {
						return m.quoteIf(verb, s)
					}
				}
			}
		}
		return m.fmtVal(fr, pos, verb, itf.T, itf.V, depth)
	}
	return Str{}, false
}

func (m *Machine) quoteIf(verb byte, s Str) (Str, bool) {
	if verb != 'q' {
		return s, true
	}
	if s.Concrete() {
		return Str{S: strconv.Quote(s.S)}, true
	}
	// symbolic: assume no characters needing escapes? cannot know -> opaque
	return Str{}, false
}

func (m *Machine) fmtVal(fr *frame, pos token.Pos, verb byte, t types.Type, v Value, depth int) (Str, bool) {
	switch v := v.(type) {
	case Str:
		if v.Opq {
			return Str{}, false
		}
		switch verb {
		case 's', 'v':
			return v, true
		case 'q':
			return m.quoteIf('q', v)
		case 'x':
			if v.Concrete() {
				return Str{S: fmt.Sprintf("%x", v.S)}, true
			}
		}
	case *sym.Term:
		if v.IsConst() {
			if v.Sort.K == sym.KBool {
				return Str{S: strconv.FormatBool(v.C == 1)}, true
			}
			var iv interface{}
			if isSigned(t) {
				iv = v.Int64()
			} else {
				iv = v.C
			}
			switch verb {
			case 'd', 'v':
				return Str{S: fmt.Sprintf("%d", iv)}, true
			case 'x':
				return Str{S: fmt.Sprintf("%x", iv)}, true
			case 'c':
				return Str{S: string(rune(v.Int64()))}, true
			case 's':
				return Str{S: fmt.Sprintf("%%!s(%s=%d)", t.String(), iv)}, true
			}
		}
		if !v.IsConst() && v.Sort.K == sym.KBV && (verb == 'd' || verb == 'v') {
			// exact single-digit rendering only when the value is provably in [0,9]; otherwise the text is opaque
			if m.feasible(m.F.Not(m.F.Bin(sym.OULT, v, m.F.Const(v.Sort, 10)))) == solver.Unsat {
				return m.fmtSymInt(v, isSigned(t)), true
			}
		}
		return Str{}, false
	case *FloatV:
		if v.IsConst() {
			switch verb {
			case 'v', 'g':
				return Str{S: fmt.Sprintf("%v", v.Const())}, true
			case 'f':
				return Str{S: fmt.Sprintf("%f", v.Const())}, true
			}
		}
	case Slice:
		if verb == 'v' || verb == 's' || verb == 'd' {
			st, ok := t.Underlying().(*types.Slice)
			if !ok {
				return Str{}, false
			}
			out := Str{S: "["}
			for i, e := range v {
				if i > 0 {
					out = m.strConcat(out, Str{S: " "})
				}
				var s Str
				var ok bool
				if ei, isI := e.(Iface); isI {
					s, ok = m.fmtArg(fr, pos, verb, ei, depth+1)
				} else {
					s, ok = m.fmtArg(fr, pos, verb, Iface{T: st.Elem(), V: e}, depth+1)
				}
				if !ok {
					return Str{}, false
				}
				out = m.strConcat(out, s)
			}
			return m.strConcat(out, Str{S: "]"}), true
		}
	case *Value:
		if v == nil {
			return Str{S: "<nil>"}, true
		}
	}
	return Str{}, false
}

func (m *Machine) sprintf(fr *frame, pos token.Pos, format Str, args Slice) Str {
	if !format.Concrete() {
		panic(unsupported("symbolic format string"))
	}
	f := format.S
	out := Str{}
	opaque := false
	ai := 0
	for i := 0; i < len(f); i++ {
		c := f[i]
		if c != '%' {
			j := i
			for j < len(f) && f[j] != '%' {
				j++
			}
			out = m.strConcat(out, Str{S: f[i:j]})
			i = j - 1
			continue
		}
		i++
		if i >= len(f) {
			break
		}
		if f[i] == '%' {
			out = m.strConcat(out, Str{S: "%"})
			continue
		}
		// flags / width: only plain verbs are rendered exactly
		plain := true
		for i < len(f) && strings.IndexByte("+-# 0123456789.", f[i]) >= 0 {
			plain = false
			i++
		}
		if i >= len(f) {
			break
		}
		verb := f[i]
		if ai >= len(args) {
			out = m.strConcat(out, Str{S: "%!" + string(verb) + "(MISSING)"})
			continue
		}
		a := args[ai]
		ai++
		if verb == 'w' {
			verb = 'v'
		}
		if verb == 'T' {
			if it := a.(Iface); it.T != nil {
				out = m.strConcat(out, Str{S: it.T.String()})
			} else {
				out = m.strConcat(out, Str{S: "<nil>"})
			}
			continue
		}
		s, ok := m.fmtArg(fr, pos, verb, a, 0)
		if !ok || !plain {
			// all-concrete operand with flags: fall back to native formatting of basic values
			if ok && !plain {
				if nv, isNative := m.nativeOf(a); isNative {
					spec := f[strings.LastIndexByte(f[:i], '%') : i+1]
					out = m.strConcat(out, Str{S: fmt.Sprintf(spec, nv)})
					continue
				}
			}
			opaque = true
			out = m.strConcat(out, Str{S: "<?>"})
			continue
		}
		out = m.strConcat(out, s)
	}
	if opaque {
		out.Opq = true
	}
	return out
}

func (m *Machine) nativeOf(a Value) (interface{}, bool) {
	it, ok := a.(Iface)
	if !ok || it.T == nil {
		return nil, false
	}
	switch v := it.V.(type) {
	case Str:
		if v.Concrete() && !v.Opq {
			return v.S, true
		}
	case *sym.Term:
		if v.IsConst() && v.Sort.K == sym.KBV {
			if isSigned(it.T) {
				return v.Int64(), true
			}
			return v.C, true
		}
	case *FloatV:
		if v.IsConst() {
			return v.Const(), true
		}
	}
	return nil, false
}

func (m *Machine) sprint(fr *frame, pos token.Pos, args Slice, ln bool) Str {
	out := Str{}
	opaque := false
	for i, a := range args {
		if i > 0 && ln {
			out = m.strConcat(out, Str{S: " "})
		}
		s, ok := m.fmtArg(fr, pos, 'v', a, 0)
		if !ok {
			opaque = true
			s = Str{S: "<?>"}
		}
		out = m.strConcat(out, s)
	}
	if ln {
		out = m.strConcat(out, Str{S: "\n"})
	}
	out.Opq = opaque
	return out
}

func (m *Machine) errorf(fr *frame, pos token.Pos, format Str, args Slice) Value {
	msg := m.sprintf(fr, pos, format, args)
	// find %w operand
	f := format.S
	ai := 0
	var wrapped *Iface
	nw := 0
	for i := 0; i < len(f); i++ {
		if f[i] != '%' {
			continue
		}
		i++
		for i < len(f) && strings.IndexByte("+-# 0123456789.", f[i]) >= 0 {
			i++
		}
		if i >= len(f) {
			break
		}
		if f[i] == '%' {
			continue
		}
		if f[i] == 'w' && ai < len(args) {
			if e, ok := args[ai].(Iface); ok && e.T != nil {
				ee := e
				wrapped = &ee
				nw++
			}
		}
		ai++
	}
	if nw > 1 {
		panic(unsupported("fmt.Errorf with several %w"))
	}
	if wrapped == nil {
		return m.callNamed(fr, pos, "errors", "New", []Value{msg})
	}
	wt := m.W.fmtWrapError
	if wt == nil {
		panic(unsupported("fmt.wrapError type not found"))
	}
	var cell Value = Struct{msg, *wrapped}
	return Iface{T: types.NewPointer(wt), V: &cell}
}

// panicString renders a panic value for reports.
func (m *Machine) panicString(v Value) string {
	it, ok := v.(Iface)
	if !ok {
		return m.describe(v)
	}
	if it.T == nil {
		return "nil"
	}
	if s, ok := it.V.(Str); ok {
		if typeIdentical(it.T, m.W.runtimeErrorString) {
			return "runtime error: " + m.describe(s)
		}
		return m.describe(s)
	}
	func() {
		defer func() { recover() }()
		if r, ok := m.callMethod(nil, token.NoPos, it, "Error"); ok {
			v = r
		}
	}()
	if s, ok := v.(Str); ok {
		return it.T.String() + ": " + m.describe(s)
	}
	return it.T.String()
}

// ---------- sort.Slice ----------

func (m *Machine) sortSlice(fr *frame, pos token.Pos, x Iface, less Value, stable bool) {
	sl, ok := x.V.(Slice)
	if !ok {
		panic(unsupported("sort.Slice on non-slice"))
	}
	n := len(sl)
	if n < 2 {
		return
	}
	if m.Spec.Sort == "anyperm" && !stable {
		m.anyPermSort(fr, pos, sl, less)
		return
	}
	swap := &Closure{Name: "sort.swapper", Native: func(m *Machine, _ *frame, a []Value) Value {
		i, j := m.concInt(a[0], "swap i"), m.concInt(a[1], "swap j")
		sl[i], sl[j] = sl[j], sl[i]
		return nil
	}}
	data := Struct{less, swap}
	p := m.W.Prog.ImportedPackage("sort")
	if stable {
		m.callSSA(fr, pos, p.Func("stable_func"), []Value{data, m.i64(int64(n))}, nil)
		return
	}
	m.callSSA(fr, pos, p.Func("pdqsort_func"), []Value{data, m.i64(0), m.i64(int64(n)), m.i64(int64(bits.Len(uint(n))))}, nil)
}

// anyPermSort: the result is any permutation that is sorted w.r.t. less (explores unstable tie orders).
func (m *Machine) anyPermSort(fr *frame, pos token.Pos, sl Slice, less Value) {
	n := len(sl)
	if n > 5 {
		panic(pathEnd{"unwind", fmt.Sprintf("anyperm sort of %d elements", n)})
	}
	orig := append(Slice(nil), sl...)
	avail := make([]int, n)
	for i := range avail {
		avail[i] = i
	}
	for i := 0; i < n; i++ {
		c := m.choose("perm", len(avail))
		sl[i] = orig[avail[c]]
		avail = append(avail[:c:c], avail[c+1:]...)
		if i > 0 {
			r := m.call(fr, pos, less, []Value{m.i64(int64(i)), m.i64(int64(i - 1))}).(*sym.Term)
			m.assume(m.F.Not(r))
		}
	}
}

var _ = ssa.InstantiateGenerics

// fmtSymInt renders a symbolic integer in base 10: a single symbolic digit when the value is in [0,9]
// (no fork), otherwise the value is concretised (forks over its feasible values).
func (m *Machine) fmtSymInt(v *sym.Term, signed bool) Str {
	w := v.Sort.W
	small := m.F.Bin(sym.OULT, v, m.F.Const(v.Sort, 10))
	if m.branch(small) {
		d := m.F.Bin(sym.OAdd, m.toWidth(v, 8, false), m.bv(8, '0'))
		return Str{B: []*sym.Term{d}}
	}
	c := m.concretize(v, "integer to format")
	if signed {
		return Str{S: strconv.FormatInt(m.F.Const(sym.BV(w), c).Int64(), 10)}
	}
	return Str{S: strconv.FormatUint(c, 10)}
}
