package exec

import (
	"go/types"
	"math"
	"fmt"
	"go/token"

	"golang.org/x/tools/go/ssa"

	"verif/engine/sym"
)

// injUF: an *injective* uninterpreted function of a byte string (model of a collision-free hash):
// equal inputs give equal results (UF congruence) and, for every pair of applications on this path,
// equal results imply equal inputs (asserted pairwise).
func (m *Machine) injUF(name string, s Str) *sym.Term {
	r := m.ufString(name, s)
	for _, prev := range m.ufCache[name] {
		if prev.res == r {
			continue
		}
		if prev.arg.Len() != s.Len() {
			m.addPC(m.F.Not(m.F.Eq(prev.res, r)))
			continue
		}
		m.addPC(m.F.Or(m.F.Not(m.F.Eq(prev.res, r)), m.strEq(prev.arg, s)))
	}
	m.ufCache[name] = append(m.ufCache[name], ufApp{arg: s, res: r})
	return r
}

func (m *Machine) hashArray(h *sym.Term, n int) Array {
	a := make(Array, n)
	for i := 0; i < n; i++ {
		if i < 8 {
			a[i] = m.F.Extract(h, 63-8*i, 56-8*i)
		} else {
			a[i] = m.bv(8, 0)
		}
	}
	return a
}

func init() {
	I := intrinsics
	// Cryptographic hashes used as identities: injective UF, result = 8 UF bytes + zero padding.
	I["golang.org/x/crypto/blake2b.Sum256"] = func(m *Machine, _ *frame, _ token.Pos, _ *ssa.Function, a []Value) Value {
		return m.hashArray(m.injUF("uf_blake2b", mkStr(m.sliceBytes(a[0].(Slice)))), 32)
	}
	I["crypto/sha256.Sum256"] = func(m *Machine, _ *frame, _ token.Pos, _ *ssa.Function, a []Value) Value {
		return m.hashArray(m.injUF("uf_sha256", mkStr(m.sliceBytes(a[0].(Slice)))), 32)
	}
	I["crypto/md5.Sum"] = func(m *Machine, _ *frame, _ token.Pos, _ *ssa.Function, a []Value) Value {
		return m.hashArray(m.ufString("uf_md5", mkStr(m.sliceBytes(a[0].(Slice)))), 16)
	}
	// base64 EncodeToString: stand-in with the contract the callers rely on - injective, output alphabet
	// inside the base64url alphabet: two characters 'A'+hi nibble, 'A'+lo nibble per byte.
	enc := func(m *Machine, _ *frame, _ token.Pos, _ *ssa.Function, a []Value) Value {
		src := m.sliceBytes(a[1].(Slice))
		out := make([]*sym.Term, 0, 2*len(src))
		for _, b := range src {
			hi := m.F.Bin(sym.OLShr, b, m.bv(8, 4))
			lo := m.F.Bin(sym.OBAnd, b, m.bv(8, 15))
			out = append(out, m.F.Bin(sym.OAdd, hi, m.bv(8, 'A')), m.F.Bin(sym.OAdd, lo, m.bv(8, 'A')))
		}
		return mkStr(out)
	}
	I["(*encoding/base64.Encoding).EncodeToString"] = enc
	I["(encoding/base64.Encoding).EncodeToString"] = enc
	// strconv.small(i): the 1- or 2-digit rendering used by the AppendInt/FormatInt fast path.
	smallF := func(m *Machine, _ *frame, _ token.Pos, _ *ssa.Function, a []Value) Value {
		t := a[0].(*sym.Term)
		if t.IsConst() {
			return Str{S: fmt.Sprint(t.Int64())}
		}
		return m.fmtSymInt(t, true)
	}
	I["strconv.small"] = smallF
	I["internal/strconv.small"] = smallF
	_ = fmt.Sprint
}

// xxhash.Digest as an accumulating buffer whose Sum64 is the same uninterpreted function as Sum64/Sum64String.
func (m *Machine) digestBuf(p *Value) *[]*sym.Term {
	if m.digests == nil {
		m.digests = map[*Value]*[]*sym.Term{}
	}
	b, ok := m.digests[p]
	if !ok {
		b = &[]*sym.Term{}
		m.digests[p] = b
	}
	return b
}

func init() {
	I := intrinsics
	const d = "(*github.com/cespare/xxhash/v2.Digest)."
	I[d+"Reset"] = func(m *Machine, _ *frame, _ token.Pos, _ *ssa.Function, a []Value) Value {
		*m.digestBuf(a[0].(*Value)) = nil
		return nil
	}
	I[d+"Write"] = func(m *Machine, _ *frame, _ token.Pos, _ *ssa.Function, a []Value) Value {
		b := m.digestBuf(a[0].(*Value))
		bs := m.sliceBytes(a[1].(Slice))
		*b = append(*b, bs...)
		return Tuple{m.i64(int64(len(bs))), Iface{}}
	}
	I[d+"WriteString"] = func(m *Machine, _ *frame, _ token.Pos, _ *ssa.Function, a []Value) Value {
		b := m.digestBuf(a[0].(*Value))
		bs := m.strBytes(m.strOf(a[1]))
		*b = append(*b, bs...)
		return Tuple{m.i64(int64(len(bs))), Iface{}}
	}
	I[d+"Sum64"] = func(m *Machine, _ *frame, _ token.Pos, _ *ssa.Function, a []Value) Value {
		return m.ufString("uf_xxhash", mkStr(*m.digestBuf(a[0].(*Value))))
	}
}

func init() {
	// value.IsStaleNaN in int53 float mode: only a NaN can be the stale marker (which NaN is unknown).
	intrinsics["github.com/prometheus/prometheus/model/value.IsStaleNaN"] = func(m *Machine, _ *frame, _ token.Pos, _ *ssa.Function, a []Value) Value {
		x := a[0].(*FloatV)
		if x.IsConst() {
			return m.boolT(math.Float64bits(x.Const()) == 0x7ff0000000000002)
		}
		if m.floatMode() == "int53" {
			n := m.nanOf(m.toI53(x))
			if n.IsFalse() {
				return n
			}
			return m.F.And(n, m.F.Var(m.freshName("h_stale"), sym.Bool))
		}
		return m.F.Eq(m.floatBits(x), m.bv(64, 0x7ff0000000000002))
	}
}

func init() {
	// textual renderings of times are only logged in the code analysed: opaque strings (may be moved, not inspected)
	opq := func(m *Machine, _ *frame, _ token.Pos, _ *ssa.Function, a []Value) Value {
		return Str{S: "<time>", Opq: true}
	}
	intrinsics["(time.Time).String"] = opq
	intrinsics["(time.Time).Format"] = opq
	intrinsics["(time.Time).GoString"] = opq
	intrinsics["(time.Duration).String"] = func(m *Machine, _ *frame, _ token.Pos, fn *ssa.Function, a []Value) Value {
		if t, ok := a[0].(*sym.Term); ok && t.IsConst() {
			return nil // not reached: handled below
		}
		return Str{S: "<duration>", Opq: true}
	}
	delete(intrinsics, "(time.Duration).String")
}

func init() {
	// context.WithValue without the reflective comparability check of the key.
	intrinsics["context.WithValue"] = func(m *Machine, fr *frame, pos token.Pos, _ *ssa.Function, a []Value) Value {
		cp := m.W.Prog.ImportedPackage("context")
		vt := cp.Type("valueCtx").Object().Type()
		var cell Value = Struct{a[0], a[1], a[2]}
		return Iface{T: types.NewPointer(vt), V: &cell}
	}
	// Deadlines never fire (no timer model): WithTimeout / WithDeadline behave like WithCancel.
	withCancel := func(m *Machine, fr *frame, pos token.Pos, _ *ssa.Function, a []Value) Value {
		return m.callNamed(fr, pos, "context", "WithCancel", []Value{a[0]})
	}
	intrinsics["context.WithTimeout"] = withCancel
	intrinsics["context.WithDeadline"] = withCancel
}

// ---- gRPC status errors (the real ones sit on protobuf reflection, which is not interpretable) ----
// A status error is the real named type *internal/status.Error whose payload cell is engine-defined:
// Struct{code (BV32), message}. Every function that looks inside is an intrinsic below.

const grpcStatusPkg = "google.golang.org/grpc/internal/status"

func (m *Machine) grpcErrType() types.Type {
	p := m.W.Prog.ImportedPackage(grpcStatusPkg)
	if p == nil {
		panic(unsupported("grpc internal status package not loaded"))
	}
	return types.NewPointer(p.Type("Error").Object().Type())
}

func (m *Machine) grpcStatusOf(fr *frame, pos token.Pos, err Iface) (*Value, bool) {
	et := m.grpcErrType()
	for depth := 0; err.T != nil && depth < 16; depth++ {
		if typeIdentical(err.T, et) {
			return err.V.(*Value), true
		}
		f := m.findMethod(err.T, "Unwrap")
		if f == nil || f.Signature.Results().Len() != 1 {
			// pkg/errors types also expose Cause()
			f = m.findMethod(err.T, "Cause")
			if f == nil {
				return nil, false
			}
		}
		r, ok := m.callSSA(fr, pos, f, []Value{err.V}, nil).(Iface)
		if !ok {
			return nil, false
		}
		err = r
	}
	return nil, false
}

func init() {
	I := intrinsics
	newStatus := func(m *Machine, code *sym.Term, msg Str) *Value {
		var cell Value = Struct{m.toWidth(code, 32, false), msg}
		return &cell
	}
	I["google.golang.org/grpc/status.Error"] = func(m *Machine, _ *frame, _ token.Pos, _ *ssa.Function, a []Value) Value {
		code := a[0].(*sym.Term)
		if code.IsConst() && code.C == 0 {
			return Iface{}
		}
		return Iface{T: m.grpcErrType(), V: newStatus(m, code, m.strOf(a[1]))}
	}
	I["google.golang.org/grpc/status.Errorf"] = func(m *Machine, fr *frame, pos token.Pos, _ *ssa.Function, a []Value) Value {
		code := a[0].(*sym.Term)
		return Iface{T: m.grpcErrType(), V: newStatus(m, code, m.sprintf(fr, pos, m.strOf(a[1]), a[2].(Slice)))}
	}
	I["google.golang.org/grpc/status.Code"] = func(m *Machine, fr *frame, pos token.Pos, _ *ssa.Function, a []Value) Value {
		err := a[0].(Iface)
		if err.T == nil {
			return m.bv(32, 0)
		}
		if st, ok := m.grpcStatusOf(fr, pos, err); ok {
			return (*st).(Struct)[0]
		}
		return m.bv(32, 2) // codes.Unknown
	}
	I["google.golang.org/grpc/status.FromError"] = func(m *Machine, fr *frame, pos token.Pos, _ *ssa.Function, a []Value) Value {
		err := a[0].(Iface)
		if err.T == nil {
			return Tuple{(*Value)(nil), m.F.True()}
		}
		if st, ok := m.grpcStatusOf(fr, pos, err); ok {
			return Tuple{st, m.F.True()}
		}
		return Tuple{newStatus(m, m.bv(32, 2), Str{S: "unknown"}), m.F.False()}
	}
	I["google.golang.org/grpc/status.Convert"] = func(m *Machine, fr *frame, pos token.Pos, _ *ssa.Function, a []Value) Value {
		err := a[0].(Iface)
		if err.T == nil {
			return (*Value)(nil)
		}
		if st, ok := m.grpcStatusOf(fr, pos, err); ok {
			return st
		}
		return newStatus(m, m.bv(32, 2), Str{S: "unknown"})
	}
	I["(*"+grpcStatusPkg+".Status).Code"] = func(m *Machine, _ *frame, _ token.Pos, _ *ssa.Function, a []Value) Value {
		p := a[0].(*Value)
		if p == nil {
			return m.bv(32, 0)
		}
		return (*p).(Struct)[0]
	}
	I["(*"+grpcStatusPkg+".Status).Message"] = func(m *Machine, _ *frame, _ token.Pos, _ *ssa.Function, a []Value) Value {
		p := a[0].(*Value)
		if p == nil {
			return Str{}
		}
		return (*p).(Struct)[1]
	}
	I["(*"+grpcStatusPkg+".Status).Err"] = func(m *Machine, _ *frame, _ token.Pos, _ *ssa.Function, a []Value) Value {
		p := a[0].(*Value)
		if p == nil {
			return Iface{}
		}
		if c := (*p).(Struct)[0].(*sym.Term); c.IsConst() && c.C == 0 {
			return Iface{}
		}
		return Iface{T: m.grpcErrType(), V: p}
	}
	I["(*"+grpcStatusPkg+".Error).Error"] = func(m *Machine, _ *frame, _ token.Pos, _ *ssa.Function, a []Value) Value {
		p := a[0].(*Value)
		return m.strConcat(Str{S: "rpc error: "}, (*p).(Struct)[1].(Str))
	}
	I["(*"+grpcStatusPkg+".Error).GRPCStatus"] = func(m *Machine, _ *frame, _ token.Pos, _ *ssa.Function, a []Value) Value {
		return a[0]
	}
}
