package exec

import (
	"fmt"
	"go/constant"
	"go/token"
	"go/types"
	"math"
	"runtime/debug"
	"slices"

	"golang.org/x/tools/go/ssa"

	"verif/engine/sym"
)

type deferred struct {
	fn    Value
	args  []Value
	instr *ssa.Defer
	tail  *deferred
}

type frame struct {
	m                *Machine
	caller           *frame
	fn               *ssa.Function
	block, prevBlock *ssa.BasicBlock
	env              map[ssa.Value]Value
	locals           []Value
	defers           *deferred
	result           Value
	panicking        bool
	panic            interface{}
	phitemps         []Value
	visits           map[*ssa.BasicBlock]int
	callPos          token.Pos
}

type continuation int

const (
	kNext continuation = iota
	kReturn
	kJump
)

func (fr *frame) get(key ssa.Value) Value {
	switch key := key.(type) {
	case nil:
		return nil
	case *ssa.Function:
		return &Closure{Fn: key}
	case *ssa.Builtin:
		return key
	case *ssa.Const:
		return fr.m.constValue(key)
	case *ssa.Global:
		return fr.m.global(key)
	}
	if r, ok := fr.env[key]; ok {
		return r
	}
	panic(fmt.Sprintf("get: no value for %T: %v in %s", key, key.Name(), fr.fn))
}

func (m *Machine) constValue(c *ssa.Const) Value {
	t := c.Type()
	if c.Value == nil {
		return m.zero(t)
	}
	if bt, ok := t.Underlying().(*types.Basic); ok {
		switch {
		case bt.Info()&types.IsBoolean != 0:
			return m.boolT(constant.BoolVal(c.Value))
		case bt.Info()&types.IsString != 0:
			return Str{S: constant.StringVal(c.Value)}
		case bt.Info()&types.IsFloat != 0:
			f, _ := constant.Float64Val(constant.ToFloat(c.Value))
			if bt.Kind() == types.Float32 {
				return &FloatV{Bits: m.bv(64, math.Float64bits(float64(float32(f)))), F32: true}
			}
			return m.fconst(f)
		case bt.Info()&types.IsInteger != 0:
			w, signed := basicWidth(bt.Kind())
			if signed {
				return m.bv(w, uint64(c.Int64()))
			}
			return m.bv(w, c.Uint64())
		}
	}
	panic(unsupported("constant of type " + t.String()))
}

func (m *Machine) global(g *ssa.Global) *Value {
	if p, ok := m.globals[g]; ok {
		return p
	}
	if g.Pkg != nil {
		m.ensureInit(g.Pkg)
		if p, ok := m.globals[g]; ok {
			return p
		}
	}
	cell := m.zero(deref(g.Type()))
	m.globals[g] = &cell
	return &cell
}

// ensureInit runs a package initialiser lazily (globals of that package only).
func (m *Machine) ensureInit(pkg *ssa.Package) {
	if m.initDone[pkg] || m.initBusy[pkg] {
		return
	}
	m.initBusy[pkg] = true
	for _, mem := range pkg.Members {
		if g, ok := mem.(*ssa.Global); ok {
			if _, ok := m.globals[g]; !ok {
				cell := m.zero(deref(g.Type()))
				m.globals[g] = &cell
			}
		}
	}
	if m.W.skipInit(pkg) {
		m.initDone[pkg] = true
		m.initBusy[pkg] = false
		return
	}
	init := pkg.Func("init")
	if init != nil && init.Blocks != nil {
		saveCur := m.cur
		func() {
			defer func() {
				if r := recover(); r != nil {
					if pe, ok := r.(pathEnd); ok && (pe.kind == "unsupported" || pe.kind == "engine" || pe.kind == "unwind") {
						// poison: globals defined after this point stay zero; remember it
						m.W.notePoison(pkg.Pkg.Path(), pe.msg)
						return
					}
					if tp, ok := r.(targetPanic); ok {
						m.W.notePoison(pkg.Pkg.Path(), "panic in init: "+m.panicString(tp.v))
						return
					}
					panic(r)
				}
			}()
			m.execSSA(nil, token.NoPos, init, nil, nil)
		}()
		m.cur = saveCur
	}
	m.initDone[pkg] = true
	m.initBusy[pkg] = false
}

// initCall runs one call of a package initialiser; a failing call poisons only its own result.
func (m *Machine) initCall(fr *frame, instr *ssa.Call) {
	// Package-level regular expressions are compiled by every path again (tens of thousands of interpreted
	// instructions). With "skip_init_regexp" they become opaque values: any later use ends the path as
	// unsupported (never silently), so this is only an optimisation for code that does not touch them.
	if m.W.SpecFile.SkipInitRegexp {
		if f, ok := instr.Call.Value.(*ssa.Function); ok && instr.Call.Method == nil {
			switch f.String() {
			case "regexp.MustCompile", "regexp.MustCompilePOSIX":
				fr.env[instr] = Opaque{"package-level regexp (skip_init_regexp)"}
				return
			}
		}
	}
	depth := m.depth
	defer func() {
		if r := recover(); r != nil {
			m.depth = depth
			msg := ""
			switch r := r.(type) {
			case pathEnd:
				if r.kind != "unsupported" && r.kind != "engine" && r.kind != "unwind" {
					panic(r)
				}
				msg = r.msg
			case targetPanic:
				msg = "panic: " + m.panicString(r.v)
			default:
				msg = fmt.Sprint(r)
			}
			m.W.notePoison(fr.fn.Pkg.Pkg.Path()+" "+instr.Call.Value.String(), msg)
			var z Value
			func() {
				defer func() {
					if recover() != nil {
						z = Opaque{"poisoned init result"}
					}
				}()
				z = m.zero(instr.Type())
			}()
			fr.env[instr] = z
		}
	}()
	fn, args := m.prepareCall(fr, &instr.Call)
	fr.env[instr] = m.call(fr, instr.Pos(), fn, args)
}

func deref(t types.Type) types.Type {
	if p, ok := t.Underlying().(*types.Pointer); ok {
		return p.Elem()
	}
	panic("deref of non-pointer " + t.String())
}

func (fr *frame) runDefer(d *deferred) {
	var ok bool
	defer func() {
		if !ok {
			r := recover()
			if pe, isEnd := r.(pathEnd); isEnd {
				panic(pe)
			}
			fr.panicking = true
			fr.panic = r
		}
	}()
	fr.m.call(fr, d.instr.Pos(), d.fn, d.args)
	ok = true
}

func (fr *frame) runDefers() {
	for d := fr.defers; d != nil; d = d.tail {
		fr.runDefer(d)
	}
	fr.defers = nil
	if fr.panicking {
		panic(fr.panic)
	}
}

func (m *Machine) lookupMethod(typ types.Type, meth *types.Func) *ssa.Function {
	return m.W.Prog.LookupMethod(typ, meth.Pkg(), meth.Name())
}

func (m *Machine) visitInstr(fr *frame, instr ssa.Instruction) continuation {
	switch instr := instr.(type) {
	case *ssa.DebugRef:
	case *ssa.UnOp:
		fr.env[instr] = m.unop(fr, instr, fr.get(instr.X))
	case *ssa.BinOp:
		fr.env[instr] = m.binop(instr.Op, instr.X.Type(), fr.get(instr.X), fr.get(instr.Y), instr.Y.Type())
	case *ssa.Call:
		if fr.fn.Synthetic == "package initializer" {
			m.initCall(fr, instr)
			break
		}
		fn, args := m.prepareCall(fr, &instr.Call)
		fr.env[instr] = m.call(fr, instr.Pos(), fn, args)
	case *ssa.ChangeInterface:
		fr.env[instr] = fr.get(instr.X)
	case *ssa.ChangeType:
		fr.env[instr] = fr.get(instr.X)
	case *ssa.Convert:
		fr.env[instr] = m.conv(instr.Type(), instr.X.Type(), fr.get(instr.X))
	case *ssa.MultiConvert:
		fr.env[instr] = m.conv(instr.Type(), instr.X.Type(), fr.get(instr.X))
	case *ssa.SliceToArrayPointer:
		x := fr.get(instr.X).(Slice)
		n := deref(instr.Type()).Underlying().(*types.Array).Len()
		if int64(len(x)) < n {
			panic(m.goPanic("cannot convert slice to array pointer: short"))
		}
		if x == nil {
			fr.env[instr] = (*Value)(nil)
		} else {
			// aliasing array view over the same cells is not expressible; copy-free only for reads.
			var cell Value = Array(x[:n:n])
			fr.env[instr] = &cell
		}
	case *ssa.MakeInterface:
		fr.env[instr] = Iface{T: instr.X.Type(), V: fr.get(instr.X)}
	case *ssa.Extract:
		fr.env[instr] = fr.get(instr.Tuple).(Tuple)[instr.Index]
	case *ssa.Slice:
		fr.env[instr] = m.sliceOp(instr, fr.get(instr.X), fr.get(instr.Low), fr.get(instr.High), fr.get(instr.Max))
	case *ssa.Return:
		switch len(instr.Results) {
		case 0:
		case 1:
			fr.result = fr.get(instr.Results[0])
		default:
			res := make(Tuple, 0, len(instr.Results))
			for _, r := range instr.Results {
				res = append(res, fr.get(r))
			}
			fr.result = res
		}
		fr.block = nil
		return kReturn
	case *ssa.RunDefers:
		fr.runDefers()
	case *ssa.Panic:
		panic(targetPanic{v: fr.get(instr.X), pos: m.position(instr.Pos())})
	case *ssa.Send:
		m.chanSend(fr.get(instr.Chan).(*Chan), fr.get(instr.X))
	case *ssa.Store:
		p := fr.get(instr.Addr).(*Value)
		if p == nil {
			panic(m.goPanic("invalid memory address or nil pointer dereference"))
		}
		store(p, fr.get(instr.Val))
	case *ssa.If:
		succ := 1
		c := fr.get(instr.Cond).(*sym.Term)
		if !c.IsConst() {
			if fr.visits == nil {
				fr.visits = map[*ssa.BasicBlock]int{}
			}
			fr.visits[fr.block]++
			if fr.visits[fr.block] > m.Spec.Unwind {
				panic(pathEnd{"unwind", fmt.Sprintf("symbolic branch in block %d of %s taken more than %d times (%s)", fr.block.Index, fr.fn, m.Spec.Unwind, m.position(instr.Pos()))})
			}
		}
		if m.branch(c) {
			succ = 0
		}
		fr.prevBlock, fr.block = fr.block, fr.block.Succs[succ]
		return kJump
	case *ssa.Jump:
		fr.prevBlock, fr.block = fr.block, fr.block.Succs[0]
		return kJump
	case *ssa.Defer:
		fn, args := m.prepareCall(fr, &instr.Call)
		defers := &fr.defers
		if instr.DeferStack != nil {
			if into := fr.get(instr.DeferStack); into != nil {
				defers = into.(**deferred)
			}
		}
		*defers = &deferred{fn: fn, args: args, instr: instr, tail: *defers}
	case *ssa.Go:
		fn, args := m.prepareCall(fr, &instr.Call)
		m.spawn(fr, instr.Pos(), fn, args)
	case *ssa.MakeChan:
		fr.env[instr] = m.makeChan(int(m.concInt(fr.get(instr.Size), "chan size")), instr.Type().Underlying().(*types.Chan).Elem())
	case *ssa.Alloc:
		var addr *Value
		if instr.Heap {
			addr = new(Value)
			fr.env[instr] = addr
		} else {
			addr = fr.env[instr].(*Value)
		}
		*addr = m.zero(deref(instr.Type()))
	case *ssa.MakeSlice:
		n := m.concInt(fr.get(instr.Len), "make len")
		c := m.concInt(fr.get(instr.Cap), "make cap")
		if n < 0 || c < n || c > int64(m.Spec.MaxAlloc) {
			if n < 0 || c < n {
				panic(m.goPanic("makeslice: len out of range"))
			}
			panic(pathEnd{"unwind", fmt.Sprintf("make([]T, %d) exceeds MaxAlloc", c)})
		}
		tElt := instr.Type().Underlying().(*types.Slice).Elem()
		s := make(Slice, c)
		z := m.zero(tElt)
		for i := range s {
			if i == 0 {
				s[i] = z
			} else {
				s[i] = copyVal(z)
			}
		}
		fr.env[instr] = s[:n]
	case *ssa.MakeMap:
		mt := instr.Type().Underlying().(*types.Map)
		fr.env[instr] = &Map{KeyT: mt.Key(), ValT: mt.Elem()}
	case *ssa.Range:
		fr.env[instr] = m.rangeIter(fr.get(instr.X))
	case *ssa.Next:
		fr.env[instr] = m.iterNext(fr.get(instr.Iter), instr)
	case *ssa.FieldAddr:
		p := fr.get(instr.X).(*Value)
		if p == nil {
			panic(m.goPanic("invalid memory address or nil pointer dereference"))
		}
		fr.env[instr] = &(*p).(Struct)[instr.Field]
	case *ssa.Field:
		fr.env[instr] = fr.get(instr.X).(Struct)[instr.Field]
	case *ssa.IndexAddr:
		x := fr.get(instr.X)
		switch x := x.(type) {
		case Slice:
			i := m.indexCheck(fr.get(instr.Index), instr.Index.Type(), len(x))
			fr.env[instr] = &x[i]
		case *Value:
			if x == nil {
				panic(m.goPanic("invalid memory address or nil pointer dereference"))
			}
			a := (*x).(Array)
			i := m.indexCheck(fr.get(instr.Index), instr.Index.Type(), len(a))
			fr.env[instr] = &a[i]
		default:
			panic(unsupported(fmt.Sprintf("IndexAddr on %T", x)))
		}
	case *ssa.Index:
		x := fr.get(instr.X)
		switch x := x.(type) {
		case Array:
			i := m.indexCheck(fr.get(instr.Index), instr.Index.Type(), len(x))
			fr.env[instr] = copyVal(x[i])
		case Str:
			fr.env[instr] = m.strIndex(x, fr.get(instr.Index), instr.Index.Type())
		default:
			panic(unsupported(fmt.Sprintf("Index on %T", x)))
		}
	case *ssa.Lookup:
		fr.env[instr] = m.lookup(instr, fr.get(instr.X), fr.get(instr.Index))
	case *ssa.MapUpdate:
		mp := fr.get(instr.Map).(*Map)
		if mp == nil {
			panic(m.goPanic("assignment to entry in nil map"))
		}
		m.mapInsert(mp, fr.get(instr.Key), copyVal(fr.get(instr.Value)))
	case *ssa.TypeAssert:
		fr.env[instr] = m.typeAssert(instr, fr.get(instr.X).(Iface))
	case *ssa.MakeClosure:
		bindings := make([]Value, 0, len(instr.Bindings))
		for _, b := range instr.Bindings {
			bindings = append(bindings, fr.get(b))
		}
		fr.env[instr] = &Closure{Fn: instr.Fn.(*ssa.Function), Env: bindings}
	case *ssa.Select:
		fr.env[instr] = m.selectOp(fr, instr)
	default:
		panic(unsupported(fmt.Sprintf("instruction %T", instr)))
	}
	return kNext
}

// indexCheck performs the bounds check (forking on a symbolic index) and returns a concrete index.
func (m *Machine) indexCheck(idx Value, it types.Type, n int) int {
	t := idx.(*sym.Term)
	if t.IsConst() {
		var i int64
		if isSigned(it) {
			i = t.Int64()
		} else {
			i = int64(t.C)
			if t.C > math.MaxInt64 {
				i = -1
			}
		}
		if i < 0 || i >= int64(n) {
			panic(m.goPanic(fmt.Sprintf("index out of range [%d] with length %d", i, n)))
		}
		return int(i)
	}
	t64 := m.toWidth(t, 64, isSigned(it))
	inb := m.F.Bin(sym.OULT, t64, m.bv(64, uint64(n)))
	if !m.branch(inb) {
		panic(m.goPanic(fmt.Sprintf("index out of range [symbolic] with length %d", n)))
	}
	return int(m.concretize(t64, "index"))
}

func (m *Machine) toWidth(t *sym.Term, w int, signed bool) *sym.Term {
	if t.Sort.W == w {
		return t
	}
	if t.Sort.W > w {
		return m.F.Extract(t, w-1, 0)
	}
	if signed {
		return m.F.SExt(t, w)
	}
	return m.F.ZExt(t, w)
}

func (m *Machine) strIndex(s Str, idx Value, it types.Type) Value {
	t := idx.(*sym.Term)
	n := s.Len()
	if !t.IsConst() && n > 0 {
		t64 := m.toWidth(t, 64, isSigned(it))
		inb := m.F.Bin(sym.OULT, t64, m.bv(64, uint64(n)))
		if !m.branch(inb) {
			panic(m.goPanic(fmt.Sprintf("index out of range [symbolic] with length %d", n)))
		}
		// ite chain, no fork
		r := m.strByte(s, n-1)
		for i := n - 2; i >= 0; i-- {
			r = m.F.Ite(m.F.Eq(t64, m.bv(64, uint64(i))), m.strByte(s, i), r)
		}
		return r
	}
	i := m.indexCheck(idx, it, n)
	return m.strByte(s, i)
}

func (m *Machine) prepareCall(fr *frame, call *ssa.CallCommon) (fn Value, args []Value) {
	v := fr.get(call.Value)
	if call.Method == nil {
		fn = v
	} else {
		recv := v.(Iface)
		if recv.T == nil {
			// nil interface of a havoc package type: the call is havoc
			if m.W.havocType(call.Value.Type()) {
				fn = &Closure{Name: "havoc:" + call.Method.FullName(), Native: havocNative(call.Method.Type().(*types.Signature), call.Method.FullName())}
				for _, arg := range call.Args {
					args = append(args, fr.get(arg))
				}
				return
			}
			panic(m.goPanic("invalid memory address or nil pointer dereference (method " + call.Method.Name() + " invoked on nil interface)"))
		}
		if ov, ok := recv.V.(Opaque); ok {
			_ = ov
			fn = &Closure{Name: "havoc:" + call.Method.FullName(), Native: havocNative(call.Method.Type().(*types.Signature), call.Method.FullName())}
			for _, arg := range call.Args {
				args = append(args, fr.get(arg))
			}
			return
		}
		f := m.lookupMethod(recv.T, call.Method)
		if f == nil {
			panic(unsupported(fmt.Sprintf("method set of %v lacks %s", recv.T, call.Method)))
		}
		fn = &Closure{Fn: f}
		args = append(args, recv.V)
	}
	for _, arg := range call.Args {
		args = append(args, fr.get(arg))
	}
	return
}

func (m *Machine) call(caller *frame, pos token.Pos, fn Value, args []Value) Value {
	switch fn := fn.(type) {
	case *Closure:
		if fn == nil {
			tp := m.goPanic("invalid memory address or nil pointer dereference (call of nil func)")
			tp.pos = m.position(pos)
			if caller != nil {
				tp.pos += " in " + caller.fn.String()
			}
			panic(tp)
		}
		if fn.Native != nil {
			m.stubs[fn.Name]++
			return fn.Native(m, caller, args)
		}
		return m.callSSA(caller, pos, fn.Fn, args, fn.Env)
	case *ssa.Builtin:
		return m.callBuiltin(caller, pos, fn, args)
	}
	panic(unsupported(fmt.Sprintf("cannot call %T", fn)))
}

func (m *Machine) callSSA(caller *frame, pos token.Pos, fn *ssa.Function, args []Value, env []Value) Value {
	if r, handled := m.intrinsic(caller, pos, fn, args); handled {
		return r
	}
	if fn.Synthetic == "package initializer" {
		// dependencies are initialised lazily, on first use of one of their globals
		return nil
	}
	return m.execSSA(caller, pos, fn, args, env)
}

func (m *Machine) execSSA(caller *frame, pos token.Pos, fn *ssa.Function, args []Value, env []Value) Value {
	if fn.Blocks == nil {
		panic(unsupported("no SSA body for " + fn.String()))
	}
	m.depth++
	if m.depth > m.Spec.MaxDepth {
		panic(pathEnd{"unwind", "call depth exceeds MaxDepth in " + fn.String()})
	}
	defer func() { m.depth-- }()
	m.funcs[fn]++
	fr := &frame{m: m, caller: caller, fn: fn, callPos: pos}
	fr.env = make(map[ssa.Value]Value, 16)
	fr.block = fn.Blocks[0]
	fr.locals = make([]Value, len(fn.Locals))
	for i, l := range fn.Locals {
		fr.locals[i] = m.zero(deref(l.Type()))
		fr.env[l] = &fr.locals[i]
	}
	for i, p := range fn.Params {
		fr.env[p] = args[i]
	}
	for i, fv := range fn.FreeVars {
		fr.env[fv] = env[i]
	}
	for fr.block != nil {
		m.runFrame(fr)
	}
	return fr.result
}

func (m *Machine) runFrame(fr *frame) {
	defer func() {
		if fr.block == nil {
			return
		}
		r := recover()
		if pe, ok := r.(pathEnd); ok {
			panic(pe)
		}
		if _, ok := r.(targetPanic); !ok {
			// interpreter bug or unsupported construct surfacing as a Go run-time error
			chain := ""
			for f, n := fr, 0; f != nil && n < 12; f, n = f.caller, n+1 {
				chain += " <- " + f.fn.String()
			}
			panic(pathEnd{"engine", fmt.Sprintf("%v in %s [interpreted stack:%s]\n%s", r, fr.fn, chain, debug.Stack())})
		}
		fr.panicking = true
		fr.panic = r
		fr.runDefers()
		fr.block = fr.fn.Recover
		if fr.block == nil {
			// recovered, no named results: return zero values
			fr.result = m.zeroResults(fr.fn)
		}
	}()
	for {
		nonPhis := fr.executePhis()
		for _, instr := range nonPhis {
			m.steps++
			if m.steps > m.Spec.MaxSteps {
				panic(pathEnd{"unwind", "step budget exhausted"})
			}
			if m.dead {
				panic(pathEnd{"killed", ""})
			}
			m.curInstr, m.curFrame = instr, fr
			if m.visitInstr(fr, instr) == kReturn {
				return
			}
		}
	}
}

func (m *Machine) zeroResults(fn *ssa.Function) Value {
	res := fn.Signature.Results()
	switch res.Len() {
	case 0:
		return nil
	case 1:
		return m.zero(res.At(0).Type())
	}
	return m.zero(res)
}

func (fr *frame) executePhis() []ssa.Instruction {
	firstNonPhi := -1
	for i, instr := range fr.block.Instrs {
		if _, ok := instr.(*ssa.Phi); !ok {
			firstNonPhi = i
			break
		}
	}
	nonPhis := fr.block.Instrs[firstNonPhi:]
	if firstNonPhi > 0 {
		phis := fr.block.Instrs[:firstNonPhi]
		predIndex := slices.Index(fr.block.Preds, fr.prevBlock)
		fr.phitemps = fr.phitemps[:0]
		for _, phi := range phis {
			fr.phitemps = append(fr.phitemps, fr.get(phi.(*ssa.Phi).Edges[predIndex]))
		}
		for i, phi := range phis {
			fr.env[phi.(*ssa.Phi)] = fr.phitemps[i]
		}
	}
	return nonPhis
}

// doRecover implements recover().
func (m *Machine) doRecover(caller *frame) Value {
	if caller != nil && !caller.panicking && caller.caller != nil && caller.caller.panicking {
		caller.caller.panicking = false
		p := caller.caller.panic
		caller.caller.panic = nil
		switch p := p.(type) {
		case targetPanic:
			return p.v
		default:
			panic(fmt.Sprintf("unexpected panic type %T in recover()", p))
		}
	}
	return Iface{}
}

func (m *Machine) typeAssert(instr *ssa.TypeAssert, itf Iface) Value {
	var v Value
	err := ""
	if itf.T == nil && m.W.havocType(instr.AssertedType) {
		// nil stands for "some value" of a havoc'd package's interface type (metrics, loggers)
		if instr.CommaOk {
			return Tuple{Iface{}, m.F.True()}
		}
		return Iface{}
	}
	if itf.T == nil {
		err = fmt.Sprintf("interface conversion: interface is nil, not %s", instr.AssertedType)
	} else if idst, ok := instr.AssertedType.Underlying().(*types.Interface); ok {
		v = itf
		if !m.implements(itf.T, idst) {
			err = fmt.Sprintf("interface conversion: %v is not %v", itf.T, instr.AssertedType)
		}
	} else if typeIdentical(itf.T, instr.AssertedType) {
		v = itf.V
	} else {
		err = fmt.Sprintf("interface conversion: interface is %s, not %s", itf.T, instr.AssertedType)
	}
	if _, isOpq := itf.V.(Opaque); isOpq && itf.T != nil && err != "" {
		// opaque values answer "no" to every assertion
	}
	if err != "" {
		if !instr.CommaOk {
			panic(m.goPanic(err))
		}
		return Tuple{m.zero(instr.AssertedType), m.F.False()}
	}
	if instr.CommaOk {
		return Tuple{v, m.F.True()}
	}
	return v
}

func (m *Machine) implements(t types.Type, i *types.Interface) bool {
	if i.NumMethods() == 0 {
		return true
	}
	return types.Implements(t, i)
}

// store writes v into *p in place, so that pointers to fields/elements of *p stay valid.
func store(p *Value, v Value) {
	switch v := v.(type) {
	case Struct:
		if old, ok := (*p).(Struct); ok && len(old) == len(v) {
			for i := range v {
				store(&old[i], v[i])
			}
			return
		}
		*p = copyVal(v)
	case Array:
		if old, ok := (*p).(Array); ok && len(old) == len(v) {
			for i := range v {
				store(&old[i], v[i])
			}
			return
		}
		*p = copyVal(v)
	default:
		*p = v
	}
}
