package exec

import (
	"fmt"
	"go/types"
	"math"
	"strings"

	"golang.org/x/tools/go/ssa"

	"verif/engine/sym"
)

// Value is one of:
//   *sym.Term          bool / integer scalars
//   *FloatV            float32/float64
//   Str                string
//   *Value             pointer (nil pointer = (*Value)(nil))
//   Struct, Array      aggregates (copied on load/store)
//   Slice              slice ([]Value sharing a backing array; nil slice = Slice(nil))
//   *Map, *Chan        reference types (nil = typed nil pointer)
//   Iface              interface value (nil interface = Iface{})
//   *Closure           function value (nil func = (*Closure)(nil))
//   Tuple              multiple results
//   UPtr               unsafe.Pointer
//   *mapIter, *strIter range iterators
//   Opaque             a value that may be moved but not inspected
type Value interface{}

type Struct []Value
type Array []Value
type Slice []Value
type Tuple []Value

type Iface struct {
	T types.Type
	V Value
}

type Closure struct {
	Fn     *ssa.Function
	Env    []Value
	Native func(m *Machine, fr *frame, args []Value) Value // intrinsic function value
	Name   string
}

type Opaque struct{ Tag string }

// UPtr models unsafe.Pointer: a pointer to a cell plus what it was derived from.
type UPtr struct {
	P    *Value
	Str  *Str  // unsafe.StringData result
	Sl   Slice // unsafe.SliceData result
	Kind int   // 0 nil/cell, 1 string data, 2 slice data
}

// Str is an immutable byte string with path-concrete length. B == nil means fully concrete (S).
type Str struct {
	S   string
	B   []*sym.Term
	Opq bool // rendered with parts the engine could not format: may be moved/concatenated, not inspected
}

func (s Str) Len() int {
	if s.B != nil {
		return len(s.B)
	}
	return len(s.S)
}
func (s Str) Concrete() bool { return s.B == nil }

// FloatV: a float in one of several representations.
type FloatV struct {
	Bits *sym.Term // BV64 IEEE bit pattern (constant or opaque/ieee input)
	FP   *sym.Term // FP-sorted term (result of symbolic ieee arithmetic)
	I    *sym.Term // int53 mode: signed BV64 integer value
	NaN  *sym.Term // int53 mode: Bool, value is NaN (nil = false)
	Frac *sym.Term // int53 mode: Bool, value lies strictly between I and I+1 (a non-integer constant or a copy of one; nil = false)
	F32  bool
}

func (f *FloatV) IsConst() bool { return f.Bits != nil && f.Bits.IsConst() && f.I == nil && f.FP == nil }
func (f *FloatV) Const() float64 {
	return math.Float64frombits(f.Bits.C)
}

type Map struct {
	Keys  []Value
	Vals  []Value
	KeyT  types.Type
	ValT  types.Type
	Order string // "" = insertion
}

type mapIter struct {
	m    *Map
	keys []Value
	vals []Value
	i    int
}

type strIter struct {
	s Str
	i int
}

func (m *Machine) bv(w int, c uint64) *sym.Term { return m.F.Const(sym.BV(w), c) }
func (m *Machine) i64(c int64) *sym.Term        { return m.F.Const(sym.BV(64), uint64(c)) }
func (m *Machine) boolT(b bool) *sym.Term       { return m.F.BoolC(b) }

func (m *Machine) fconst(v float64) *FloatV {
	return &FloatV{Bits: m.F.Const(sym.BV(64), math.Float64bits(v))}
}

func basicWidth(k types.BasicKind) (w int, signed bool) {
	switch k {
	case types.Int8:
		return 8, true
	case types.Uint8:
		return 8, false
	case types.Int16:
		return 16, true
	case types.Uint16:
		return 16, false
	case types.Int32, types.UntypedRune:
		return 32, true
	case types.Uint32:
		return 32, false
	case types.Int64, types.Int, types.UntypedInt:
		return 64, true
	case types.Uint64, types.Uint, types.Uintptr:
		return 64, false
	}
	return 0, false
}

func isFloat(t types.Type) bool {
	b, ok := t.Underlying().(*types.Basic)
	return ok && b.Info()&types.IsFloat != 0
}
func isInteger(t types.Type) bool {
	b, ok := t.Underlying().(*types.Basic)
	return ok && b.Info()&types.IsInteger != 0
}
func isString(t types.Type) bool {
	b, ok := t.Underlying().(*types.Basic)
	return ok && b.Info()&types.IsString != 0
}
func isSigned(t types.Type) bool {
	b, ok := t.Underlying().(*types.Basic)
	if !ok {
		return false
	}
	_, s := basicWidth(b.Kind())
	return s
}
func intWidth(t types.Type) int {
	b, ok := t.Underlying().(*types.Basic)
	if !ok {
		return 0
	}
	w, _ := basicWidth(b.Kind())
	return w
}

func (m *Machine) zero(t types.Type) Value {
	switch t := t.(type) {
	case *types.Basic:
		if t.Kind() == types.UntypedNil {
			panic(unsupported("untyped nil has no zero value"))
		}
		if t.Kind() == types.UnsafePointer {
			return UPtr{}
		}
		if t.Info()&types.IsBoolean != 0 {
			return m.F.False()
		}
		if t.Info()&types.IsString != 0 {
			return Str{}
		}
		if t.Info()&types.IsFloat != 0 {
			return &FloatV{Bits: m.bv(64, 0), F32: t.Kind() == types.Float32}
		}
		if w, _ := basicWidth(t.Kind()); w > 0 {
			return m.bv(w, 0)
		}
		panic(unsupported("zero of basic type " + t.String()))
	case *types.Pointer:
		return (*Value)(nil)
	case *types.Array:
		a := make(Array, t.Len())
		for i := range a {
			a[i] = m.zero(t.Elem())
		}
		return a
	case *types.Named:
		return m.zero(t.Underlying())
	case *types.Alias:
		return m.zero(types.Unalias(t))
	case *types.Interface:
		return Iface{}
	case *types.Slice:
		return Slice(nil)
	case *types.Struct:
		s := make(Struct, t.NumFields())
		for i := range s {
			s[i] = m.zero(t.Field(i).Type())
		}
		return s
	case *types.Tuple:
		if t.Len() == 1 {
			return m.zero(t.At(0).Type())
		}
		s := make(Tuple, t.Len())
		for i := range s {
			s[i] = m.zero(t.At(i).Type())
		}
		return s
	case *types.Chan:
		return (*Chan)(nil)
	case *types.Map:
		return (*Map)(nil)
	case *types.Signature:
		return (*Closure)(nil)
	}
	panic(unsupported(fmt.Sprintf("zero: unexpected %T", t)))
}

// copyVal makes an unaliased copy of aggregates.
func copyVal(v Value) Value {
	switch v := v.(type) {
	case Struct:
		n := make(Struct, len(v))
		for i, x := range v {
			n[i] = copyVal(x)
		}
		return n
	case Array:
		n := make(Array, len(v))
		for i, x := range v {
			n[i] = copyVal(x)
		}
		return n
	}
	return v
}

func (m *Machine) strByte(s Str, i int) *sym.Term {
	if s.Opq {
		panic(unsupported("inspection of an opaque formatted string"))
	}
	if s.B != nil {
		return s.B[i]
	}
	return m.bv(8, uint64(s.S[i]))
}

func (m *Machine) strBytes(s Str) []*sym.Term {
	if s.Opq {
		panic(unsupported("inspection of an opaque formatted string"))
	}
	if s.B != nil {
		return s.B
	}
	b := make([]*sym.Term, len(s.S))
	for i := range b {
		b[i] = m.bv(8, uint64(s.S[i]))
	}
	return b
}

// mkStr normalises a byte-term vector into a Str (concrete if all bytes are constants).
func mkStr(b []*sym.Term) Str {
	for _, t := range b {
		if !t.IsConst() {
			cp := make([]*sym.Term, len(b))
			copy(cp, b)
			return Str{B: cp}
		}
	}
	bs := make([]byte, len(b))
	for i, t := range b {
		bs[i] = byte(t.C)
	}
	return Str{S: string(bs)}
}

func (m *Machine) strSlice(s Str, lo, hi int) Str {
	if s.Opq {
		panic(unsupported("slicing of an opaque formatted string"))
	}
	if s.B == nil {
		return Str{S: s.S[lo:hi]}
	}
	return mkStr(s.B[lo:hi])
}

func (m *Machine) strConcat(a, b Str) Str {
	if a.Opq || b.Opq {
		return Str{S: a.S + b.S, Opq: true}
	}
	if a.B == nil && b.B == nil {
		return Str{S: a.S + b.S}
	}
	if a.Len() == 0 {
		return b
	}
	if b.Len() == 0 {
		return a
	}
	x := append(append([]*sym.Term{}, m.strBytes(a)...), m.strBytes(b)...)
	return Str{B: x}
}

func (m *Machine) strEq(a, b Str) *sym.Term {
	if a.Opq || b.Opq {
		panic(unsupported("comparison of an opaque formatted string"))
	}
	if a.Len() != b.Len() {
		return m.F.False()
	}
	if a.B == nil && b.B == nil {
		return m.boolT(a.S == b.S)
	}
	r := m.F.True()
	for i := 0; i < a.Len(); i++ {
		r = m.F.And(r, m.F.Eq(m.strByte(a, i), m.strByte(b, i)))
		if r.IsFalse() {
			return r
		}
	}
	return r
}

// strLess: lexicographic a < b.
func (m *Machine) strLess(a, b Str) *sym.Term {
	if a.Opq || b.Opq {
		panic(unsupported("comparison of an opaque formatted string"))
	}
	if a.B == nil && b.B == nil {
		return m.boolT(a.S < b.S)
	}
	n := a.Len()
	if b.Len() < n {
		n = b.Len()
	}
	// from the back: res = (len(a) < len(b)) for the common prefix being equal
	res := m.boolT(a.Len() < b.Len())
	for i := n - 1; i >= 0; i-- {
		x, y := m.strByte(a, i), m.strByte(b, i)
		res = m.F.Ite(m.F.Bin(sym.OULT, x, y), m.F.True(), m.F.Ite(m.F.Eq(x, y), res, m.F.False()))
	}
	return res
}

func (m *Machine) strOf(v Value) Str {
	s, ok := v.(Str)
	if !ok {
		panic(unsupported(fmt.Sprintf("expected string, got %T", v)))
	}
	return s
}

// concStr returns the Go string of a fully concrete Str.
func (m *Machine) concStr(v Value) string {
	s := m.strOf(v)
	if s.B != nil {
		panic(unsupported("concrete string required"))
	}
	return s.S
}

func typeIdentical(a, b types.Type) bool {
	if a == b {
		return true
	}
	return types.Identical(a, b)
}

// equals returns a Bool term for x == y at static type t.
func (m *Machine) equals(t types.Type, x, y Value) *sym.Term {
	switch x := x.(type) {
	case *sym.Term:
		return m.F.Eq(x, y.(*sym.Term))
	case *FloatV:
		return m.floatCmp("==", x, y.(*FloatV))
	case Str:
		return m.strEq(x, y.(Str))
	case *Value:
		return m.boolT(x == y.(*Value))
	case *Map:
		return m.boolT(x == y.(*Map))
	case *Chan:
		return m.boolT(x == y.(*Chan))
	case UPtr:
		yy := y.(UPtr)
		return m.boolT(x.P == yy.P && x.Kind == yy.Kind)
	case Struct:
		yy := y.(Struct)
		st := t.Underlying().(*types.Struct)
		r := m.F.True()
		for i := range x {
			if st.Field(i).Name() == "_" {
				continue
			}
			r = m.F.And(r, m.equals(st.Field(i).Type(), x[i], yy[i]))
			if r.IsFalse() {
				return r
			}
		}
		return r
	case Array:
		yy := y.(Array)
		et := t.Underlying().(*types.Array).Elem()
		r := m.F.True()
		for i := range x {
			r = m.F.And(r, m.equals(et, x[i], yy[i]))
			if r.IsFalse() {
				return r
			}
		}
		return r
	case Iface:
		yy := y.(Iface)
		if x.T == nil || yy.T == nil {
			return m.boolT(x.T == nil && yy.T == nil)
		}
		if !typeIdentical(x.T, yy.T) {
			return m.F.False()
		}
		if !types.Comparable(x.T) {
			panic(m.goPanic("runtime error: comparing uncomparable type " + x.T.String()))
		}
		return m.equals(x.T, x.V, yy.V)
	case *Closure:
		// only comparison with nil is legal
		yy := y.(*Closure)
		return m.boolT(x == nil && yy == nil)
	case Slice:
		yy := y.(Slice)
		return m.boolT(x == nil && yy == nil)
	case Opaque:
		panic(unsupported("comparison of opaque value " + x.Tag))
	}
	panic(unsupported(fmt.Sprintf("equals: %T", x)))
}

// describe renders a value for evidence / debugging (concrete parts only).
func (m *Machine) describe(v Value) string {
	switch v := v.(type) {
	case nil:
		return "<nil>"
	case *sym.Term:
		if v.IsConst() {
			if v.Sort.K == sym.KBool {
				return fmt.Sprint(v.C == 1)
			}
			return fmt.Sprint(v.Int64())
		}
		return "<sym>"
	case *FloatV:
		if v.IsConst() {
			return fmt.Sprint(v.Const())
		}
		return "<symfloat>"
	case Str:
		if v.B == nil {
			return fmt.Sprintf("%q", v.S)
		}
		return fmt.Sprintf("<symstr len=%d>", len(v.B))
	case *Value:
		if v == nil {
			return "nil"
		}
		return "&" + m.describe(*v)
	case Struct:
		var p []string
		for _, x := range v {
			p = append(p, m.describe(x))
		}
		return "{" + strings.Join(p, ",") + "}"
	case Array:
		var p []string
		for _, x := range v {
			p = append(p, m.describe(x))
		}
		return "[" + strings.Join(p, ",") + "]"
	case Slice:
		if len(v) > 16 {
			return fmt.Sprintf("slice(len=%d)", len(v))
		}
		var p []string
		for _, x := range v {
			p = append(p, m.describe(x))
		}
		return "[]{" + strings.Join(p, ",") + "}"
	case Iface:
		if v.T == nil {
			return "nil"
		}
		return "(" + v.T.String() + ")" + m.describe(v.V)
	case Tuple:
		var p []string
		for _, x := range v {
			p = append(p, m.describe(x))
		}
		return "(" + strings.Join(p, ",") + ")"
	}
	return fmt.Sprintf("<%T>", v)
}
