package exec

import (
	"fmt"
	"go/token"
	"go/types"
	"math"
	"sort"
	"strings"

	"golang.org/x/tools/go/ssa"

	"verif/engine/sym"
)

type intrinsicFn func(m *Machine, caller *frame, pos token.Pos, fn *ssa.Function, args []Value) Value

var noIntrinsic intrinsicFn = func(*Machine, *frame, token.Pos, *ssa.Function, []Value) Value { return nil }

func funcPkgPath(fn *ssa.Function) string {
	if fn.Pkg != nil {
		return fn.Pkg.Pkg.Path()
	}
	if o := fn.Object(); o != nil && o.Pkg() != nil {
		return o.Pkg().Path()
	}
	if fn.Signature.Recv() != nil {
		t := fn.Signature.Recv().Type()
		if p, ok := t.(*types.Pointer); ok {
			t = p.Elem()
		}
		if n, ok := t.(*types.Named); ok && n.Obj().Pkg() != nil {
			return n.Obj().Pkg().Path()
		}
	}
	if fn.Parent() != nil {
		return funcPkgPath(fn.Parent())
	}
	if o := fn.Origin(); o != nil && o != fn {
		return funcPkgPath(o)
	}
	return ""
}

// intrinsic dispatches engine-implemented functions. handled=false means "interpret the SSA body".
func (m *Machine) intrinsic(caller *frame, pos token.Pos, fn *ssa.Function, args []Value) (Value, bool) {
	f, ok := m.intrCache[fn]
	if !ok {
		f = m.resolveIntrinsic(fn)
		m.intrCache[fn] = f
	}
	if f == nil {
		return nil, false
	}
	return f(m, caller, pos, fn, args), true
}

func (m *Machine) resolveIntrinsic(fn *ssa.Function) intrinsicFn {
	name := fn.String()
	// harness runtime
	if strings.HasPrefix(fn.Name(), "verif") && fn.Signature.Recv() == nil {
		if f, ok := verifIntrinsics[fn.Name()]; ok {
			return counted("verif."+fn.Name(), f, false)
		}
	}
	// spec overrides: run a harness function instead
	if target, ok := m.W.overrides[name]; ok {
		return func(m *Machine, caller *frame, pos token.Pos, orig *ssa.Function, args []Value) Value {
			// a wrapper may call the function it replaces (e.g. with a smaller constant): calls from the
			// override target itself reach the original body
			if caller != nil && caller.fn == target {
				return m.execSSA(caller, pos, orig, args, nil)
			}
			m.stubs["override:"+name]++
			return m.callSSA(caller, pos, target, args, nil)
		}
	}
	if f, ok := intrinsics[name]; ok {
		return counted(name, f, true)
	}
	if o := fn.Origin(); o != nil && o != fn {
		if f, ok := intrinsics[o.String()]; ok {
			return counted(o.String(), f, true)
		}
	}
	for _, p := range prefixIntrinsics {
		if strings.HasPrefix(name, p.prefix) {
			return counted(name, p.f, true)
		}
	}
	pp := funcPkgPath(fn)
	if m.W.havocPkg(pp) && !m.W.realFuncs[name] {
		return func(m *Machine, caller *frame, pos token.Pos, fn *ssa.Function, args []Value) Value {
			m.stubs["havoc:"+pp]++
			return m.havocCall(fn.Signature, name, args)
		}
	}
	return nil
}

func counted(name string, f intrinsicFn, count bool) intrinsicFn {
	if !count {
		return f
	}
	return func(m *Machine, caller *frame, pos token.Pos, fn *ssa.Function, args []Value) Value {
		m.stubs[name]++
		return f(m, caller, pos, fn, args)
	}
}

func havocNative(sig *types.Signature, name string) func(m *Machine, fr *frame, args []Value) Value {
	return func(m *Machine, fr *frame, args []Value) Value {
		return m.havocCall(sig, name, args)
	}
}

// havocCall: no effect; scalar results unconstrained, reference results nil, error nil.
func (m *Machine) havocCall(sig *types.Signature, name string, args []Value) Value {
	for _, a := range args {
		if c, ok := a.(*Closure); ok && c != nil && !m.W.havocCallbackOK(name) {
			panic(unsupported("havoc callee " + name + " receives a function value"))
		}
	}
	res := sig.Results()
	mk := func(t types.Type) Value {
		if b, ok := t.Underlying().(*types.Basic); ok {
			switch {
			case b.Info()&types.IsBoolean != 0:
				return m.F.Var(m.freshName("h_b"), sym.Bool)
			case b.Info()&types.IsInteger != 0:
				w, _ := basicWidth(b.Kind())
				return m.F.Var(m.freshName("h_i"), sym.BV(w))
			case b.Info()&types.IsFloat != 0:
				return &FloatV{Bits: m.F.Var(m.freshName("h_f"), sym.BV(64))}
			case b.Info()&types.IsString != 0:
				return Str{S: "<havoc>"}
			}
		}
		if _, ok := t.Underlying().(*types.Interface); ok && m.W.havocType(t) {
			return Iface{}
		}
		return m.zero(t)
	}
	switch res.Len() {
	case 0:
		return nil
	case 1:
		return mk(res.At(0).Type())
	}
	out := make(Tuple, res.Len())
	for i := range out {
		out[i] = mk(res.At(i).Type())
	}
	return out
}

// ---------- harness runtime ----------

func (m *Machine) inputVar(name string, s sym.Sort) *sym.Term {
	if !m.F.HasVar("v_" + name) {
		m.inputOrd = append(m.inputOrd, name)
	}
	return m.F.Var("v_"+name, s)
}

func sanitize(s string) string {
	var b strings.Builder
	for _, c := range s {
		if c >= 'a' && c <= 'z' || c >= 'A' && c <= 'Z' || c >= '0' && c <= '9' || c == '_' {
			b.WriteRune(c)
		} else {
			b.WriteRune('_')
		}
	}
	return b.String()
}

func (m *Machine) nameArg(v Value) string { return sanitize(m.concStr(v)) }

var verifIntrinsics map[string]intrinsicFn

func init() {
	verifIntrinsics = map[string]intrinsicFn{
		"verifInt64": func(m *Machine, _ *frame, _ token.Pos, _ *ssa.Function, a []Value) Value {
			return m.inputVar(m.nameArg(a[0]), sym.BV(64))
		},
		"verifUint64": func(m *Machine, _ *frame, _ token.Pos, _ *ssa.Function, a []Value) Value {
			return m.inputVar(m.nameArg(a[0]), sym.BV(64))
		},
		"verifInt": func(m *Machine, _ *frame, _ token.Pos, _ *ssa.Function, a []Value) Value {
			return m.inputVar(m.nameArg(a[0]), sym.BV(64))
		},
		"verifInt32": func(m *Machine, _ *frame, _ token.Pos, _ *ssa.Function, a []Value) Value {
			return m.inputVar(m.nameArg(a[0]), sym.BV(32))
		},
		"verifUint32": func(m *Machine, _ *frame, _ token.Pos, _ *ssa.Function, a []Value) Value {
			return m.inputVar(m.nameArg(a[0]), sym.BV(32))
		},
		"verifByte": func(m *Machine, _ *frame, _ token.Pos, _ *ssa.Function, a []Value) Value {
			return m.inputVar(m.nameArg(a[0]), sym.BV(8))
		},
		"verifBool": func(m *Machine, _ *frame, _ token.Pos, _ *ssa.Function, a []Value) Value {
			return m.inputVar(m.nameArg(a[0]), sym.Bool)
		},
		"verifFloat": func(m *Machine, _ *frame, _ token.Pos, _ *ssa.Function, a []Value) Value {
			n := m.nameArg(a[0])
			if !m.F.HasVar("v_" + n) {
				m.inputOrd = append(m.inputOrd, n)
			}
			return m.symFloat(n)
		},
		// verifIntRange(name, lo, hi): path-concrete int in [lo,hi], forks.
		"verifIntRange": func(m *Machine, _ *frame, _ token.Pos, _ *ssa.Function, a []Value) Value {
			n := m.nameArg(a[0])
			lo, hi := m.concInt(a[1], "lo"), m.concInt(a[2], "hi")
			if o, ok := m.Spec.Fix[n]; ok {
				m.choices[n] = o
				return m.i64(o)
			}
			c := m.choose("ch", int(hi-lo+1))
			m.choices[n] = lo + int64(c)
			return m.i64(lo + int64(c))
		},
		// verifParam(name, default): tier parameter from the spec.
		"verifParam": func(m *Machine, _ *frame, _ token.Pos, _ *ssa.Function, a []Value) Value {
			n := m.concStr(a[0])
			if v, ok := m.Spec.Params[n]; ok {
				return m.i64(v)
			}
			return a[1]
		},
		// verifStr(name, maxLen, alphabet): length forks 0..maxLen, bytes symbolic over alphabet.
		"verifStr": func(m *Machine, _ *frame, _ token.Pos, _ *ssa.Function, a []Value) Value {
			n := m.nameArg(a[0])
			minLen := 0
			maxLen := int(m.concInt(a[1], "maxLen"))
			alpha := m.concStr(a[2])
			l := m.choose("ch", maxLen-minLen+1) + minLen
			m.choices[n+"_len"] = int64(l)
			return m.symStr(n, l, alpha)
		},
		// verifStrN(name, len, alphabet): fixed length.
		"verifStrN": func(m *Machine, _ *frame, _ token.Pos, _ *ssa.Function, a []Value) Value {
			n := m.nameArg(a[0])
			l := int(m.concInt(a[1], "len"))
			return m.symStr(n, l, m.concStr(a[2]))
		},
		"verifHashKey": func(m *Machine, _ *frame, _ token.Pos, _ *ssa.Function, a []Value) Value {
			n := m.nameArg(a[0])
			l := int(m.concInt(a[1], "len"))
			return m.symStr(n, l, m.concStr(a[2]))
		},
		"verifAssume": func(m *Machine, _ *frame, _ token.Pos, _ *ssa.Function, a []Value) Value {
			m.assume(a[0].(*sym.Term))
			return nil
		},
		"verifAssert": func(m *Machine, fr *frame, pos token.Pos, _ *ssa.Function, a []Value) Value {
			m.check(a[0].(*sym.Term), m.concStr(a[1]), m.position(pos))
			return nil
		},
		"verifReach": func(m *Machine, _ *frame, _ token.Pos, _ *ssa.Function, a []Value) Value {
			m.reached[m.concStr(a[0])] = true
			return nil
		},
		"verifObserve": func(m *Machine, _ *frame, _ token.Pos, _ *ssa.Function, a []Value) Value {
			for _, v := range a[0].(Slice) {
				m.observed = append(m.observed, m.describe(v))
			}
			return nil
		},
		// verifKnown(id, cond): cond describes the region of a recorded finding.
		"verifKnown": func(m *Machine, _ *frame, _ token.Pos, _ *ssa.Function, a []Value) Value {
			id := m.concStr(a[0])
			c := a[1].(*sym.Term)
			return m.knownRegion(id, c)
		},
		"verifCrash": func(m *Machine, _ *frame, _ token.Pos, _ *ssa.Function, a []Value) Value {
			panic(pathEnd{"crash", "verifCrash"})
		},
		"verifSymbolic": func(m *Machine, _ *frame, _ token.Pos, _ *ssa.Function, a []Value) Value {
			return m.F.True()
		},
		"verifName": func(m *Machine, _ *frame, _ token.Pos, _ *ssa.Function, a []Value) Value {
			s := m.concStr(a[0])
			for _, x := range a[1].(Slice) {
				s += "_" + fmt.Sprint(m.concInt(x, "name index"))
			}
			return Str{S: s}
		},
		"verifIsConcrete": func(m *Machine, _ *frame, _ token.Pos, _ *ssa.Function, a []Value) Value {
			return m.F.False()
		},
		"verifB2I": func(m *Machine, _ *frame, _ token.Pos, _ *ssa.Function, a []Value) Value {
			return m.F.Ite(a[0].(*sym.Term), m.i64(1), m.i64(0))
		},
		"verifAll": func(m *Machine, _ *frame, _ token.Pos, _ *ssa.Function, a []Value) Value {
			r := m.F.True()
			for _, c := range a[0].(Slice) {
				r = m.F.And(r, c.(*sym.Term))
			}
			return r
		},
		"verifAny": func(m *Machine, _ *frame, _ token.Pos, _ *ssa.Function, a []Value) Value {
			r := m.F.False()
			for _, c := range a[0].(Slice) {
				r = m.F.Or(r, c.(*sym.Term))
			}
			return r
		},
		"verifImplies": func(m *Machine, _ *frame, _ token.Pos, _ *ssa.Function, a []Value) Value {
			return m.F.Or(m.F.Not(a[0].(*sym.Term)), a[1].(*sym.Term))
		},
		"verifIte64": func(m *Machine, _ *frame, _ token.Pos, _ *ssa.Function, a []Value) Value {
			return m.F.Ite(a[0].(*sym.Term), a[1].(*sym.Term), a[2].(*sym.Term))
		},
		"verifIteF": func(m *Machine, _ *frame, _ token.Pos, _ *ssa.Function, a []Value) Value {
			c := a[0].(*sym.Term)
			x, y := a[1].(*FloatV), a[2].(*FloatV)
			if c.IsConst() {
				if c.C == 1 {
					return x
				}
				return y
			}
			if m.floatMode() == "int53" {
				xi, yi := m.toI53(x), m.toI53(y)
				return &FloatV{I: m.F.Ite(c, xi.I, yi.I), NaN: m.F.Ite(c, m.nanOf(xi), m.nanOf(yi)), Frac: m.F.Ite(c, m.fracOf(xi), m.fracOf(yi))}
			}
			if x.Bits != nil && y.Bits != nil {
				return &FloatV{Bits: m.F.Ite(c, x.Bits, y.Bits)}
			}
			return &FloatV{FP: m.F.Ite(c, m.asFP(x), m.asFP(y))}
		},
		"verifNative": func(m *Machine, _ *frame, _ token.Pos, _ *ssa.Function, a []Value) Value {
			return m.F.False()
		},
		"verifYield": func(m *Machine, _ *frame, _ token.Pos, _ *ssa.Function, a []Value) Value {
			m.schedPoint("yield")
			return nil
		},
		// verifHash(tag, s): uninterpreted 64-bit function of a string
		"verifHash": func(m *Machine, _ *frame, _ token.Pos, _ *ssa.Function, a []Value) Value {
			return m.ufString("uf_"+sanitize(m.concStr(a[0])), m.strOf(a[1]))
		},
	}
}

func (m *Machine) symStr(name string, l int, alpha string) Str {
	if l == 0 {
		return Str{}
	}
	b := make([]*sym.Term, l)
	for i := range b {
		v := m.inputVar(fmt.Sprintf("%s_%d", name, i), sym.BV(8))
		b[i] = v
		if alpha != "" {
			c := m.F.False()
			for j := 0; j < len(alpha); j++ {
				c = m.F.Or(c, m.F.Eq(v, m.bv(8, uint64(alpha[j]))))
			}
			m.addPC(c)
		}
	}
	return Str{B: b}
}

// knownRegion: in "exclude" phase the region is assumed away; in "confirm" phase it is assumed.
func (m *Machine) knownRegion(id string, c *sym.Term) Value {
	if !m.W.isKnown(m.Spec.Property, id) {
		return nil
	}
	m.knownHit[id] = true
	if m.Spec.KnownPhase == "confirm:"+id {
		m.assume(c)
		return nil
	}
	m.assume(m.F.Not(c))
	return nil
}

// ufString applies an uninterpreted function to a string: equal strings give equal results.
// Encoding: one UF symbol per (name, length); strings of different length get different UF symbols,
// which is weaker than a real function only in that it allows collisions across lengths (sound).
func (m *Machine) ufString(name string, s Str) *sym.Term {
	n := s.Len()
	fname := fmt.Sprintf("%s_%d", name, n)
	if n == 0 {
		return m.F.Var("h_"+fname, sym.BV(64))
	}
	if n > 24 && s.Concrete() {
		// long concrete strings: one constant symbol per distinct string
		return m.F.Var("h_"+fname+"_"+fmt.Sprintf("%x", fnv(s.S)), sym.BV(64))
	}
	// pack bytes into <=8-byte words
	var args []*sym.Term
	bs := m.strBytes(s)
	for i := 0; i < n; i += 8 {
		j := min(i+8, n)
		w := bs[i]
		for k := i + 1; k < j; k++ {
			w = m.F.Concat(w, bs[k])
		}
		args = append(args, w)
	}
	return m.F.UF(fname, sym.BV(64), args...)
}

func fnv(s string) uint64 {
	h := uint64(14695981039346656037)
	for i := 0; i < len(s); i++ {
		h ^= uint64(s[i])
		h *= 1099511628211
	}
	return h
}

// ---------- library intrinsics ----------

type prefixIntr struct {
	prefix string
	f      intrinsicFn
}

var prefixIntrinsics []prefixIntr
var intrinsics map[string]intrinsicFn

func nop(m *Machine, _ *frame, _ token.Pos, _ *ssa.Function, a []Value) Value { return nil }

func ptrArg(m *Machine, v Value) *Value {
	switch p := v.(type) {
	case *Value:
		if p == nil {
			panic(m.goPanic("invalid memory address or nil pointer dereference"))
		}
		return p
	case UPtr:
		if p.P == nil {
			panic(m.goPanic("invalid memory address or nil pointer dereference"))
		}
		return p.P
	}
	panic(unsupported(fmt.Sprintf("pointer expected, got %T", v)))
}

func init() {
	I := map[string]intrinsicFn{}
	intrinsics = I

	// --- sync ---
	I["(*sync.Mutex).Lock"] = func(m *Machine, _ *frame, _ token.Pos, _ *ssa.Function, a []Value) Value {
		m.lock(a[0].(*Value))
		return nil
	}
	I["(*sync.Mutex).Unlock"] = func(m *Machine, _ *frame, _ token.Pos, _ *ssa.Function, a []Value) Value {
		m.unlock(a[0].(*Value))
		return nil
	}
	I["(*sync.Mutex).TryLock"] = func(m *Machine, _ *frame, _ token.Pos, _ *ssa.Function, a []Value) Value {
		return m.boolT(m.tryLock(a[0].(*Value)))
	}
	I["(*sync.RWMutex).Lock"] = I["(*sync.Mutex).Lock"]
	// sync.Cond: FIFO tickets; Wait = unlock L, block until signalled, lock L
	condL := func(m *Machine, c *Value) *Value {
		st, ok := (*c).(Struct)
		if !ok || len(st) < 2 {
			panic(unsupported("sync.Cond representation"))
		}
		l, ok := st[1].(Iface)
		if !ok || l.V == nil {
			panic(unsupported("sync.Cond with nil / unknown Locker"))
		}
		lp, ok := l.V.(*Value)
		if !ok {
			panic(unsupported("sync.Cond Locker is not a pointer"))
		}
		return lp
	}
	I["(*sync.Cond).Wait"] = func(m *Machine, _ *frame, _ token.Pos, _ *ssa.Function, a []Value) Value {
		c := a[0].(*Value)
		lp := condL(m, c)
		cs := m.condState(c)
		ticket := cs.next
		cs.next++
		cs.waiting = append(cs.waiting, ticket)
		m.unlock(lp)
		m.block(func() bool { return cs.signalled[ticket] }, "Cond.Wait")
		delete(cs.signalled, ticket)
		m.lock(lp)
		return nil
	}
	I["(*sync.Cond).Signal"] = func(m *Machine, _ *frame, _ token.Pos, _ *ssa.Function, a []Value) Value {
		cs := m.condState(a[0].(*Value))
		if len(cs.waiting) > 0 {
			cs.signalled[cs.waiting[0]] = true
			cs.waiting = cs.waiting[1:]
		}
		m.schedPoint("signal")
		return nil
	}
	I["(*sync.Cond).Broadcast"] = func(m *Machine, _ *frame, _ token.Pos, _ *ssa.Function, a []Value) Value {
		cs := m.condState(a[0].(*Value))
		for _, t := range cs.waiting {
			cs.signalled[t] = true
		}
		cs.waiting = nil
		m.schedPoint("broadcast")
		return nil
	}
	I["(*sync.RWMutex).Unlock"] = I["(*sync.Mutex).Unlock"]
	I["(*sync.RWMutex).RLock"] = func(m *Machine, _ *frame, _ token.Pos, _ *ssa.Function, a []Value) Value {
		m.rlock(a[0].(*Value))
		return nil
	}
	I["(*sync.RWMutex).RUnlock"] = func(m *Machine, _ *frame, _ token.Pos, _ *ssa.Function, a []Value) Value {
		m.runlock(a[0].(*Value))
		return nil
	}
	I["(*sync.WaitGroup).Add"] = func(m *Machine, _ *frame, _ token.Pos, _ *ssa.Function, a []Value) Value {
		s := m.wg(a[0].(*Value))
		s.n += m.concInt(a[1], "WaitGroup.Add")
		if s.n < 0 {
			panic(targetPanic{v: Iface{T: m.W.runtimeErrorString, V: Str{S: "sync: negative WaitGroup counter"}}})
		}
		m.schedPoint("wg.add")
		return nil
	}
	I["(*sync.WaitGroup).Done"] = func(m *Machine, _ *frame, _ token.Pos, _ *ssa.Function, a []Value) Value {
		s := m.wg(a[0].(*Value))
		s.n--
		if s.n < 0 {
			panic(targetPanic{v: Iface{T: m.W.runtimeErrorString, V: Str{S: "sync: negative WaitGroup counter"}}})
		}
		m.schedPoint("wg.done")
		return nil
	}
	I["(*sync.WaitGroup).Wait"] = func(m *Machine, _ *frame, _ token.Pos, _ *ssa.Function, a []Value) Value {
		s := m.wg(a[0].(*Value))
		m.schedPoint("wg.wait")
		m.block(func() bool { return s.n == 0 }, "WaitGroup.Wait")
		return nil
	}
	I["(*sync.WaitGroup).Go"] = func(m *Machine, fr *frame, pos token.Pos, _ *ssa.Function, a []Value) Value {
		s := m.wg(a[0].(*Value))
		s.n++
		f := a[1]
		done := &Closure{Name: "wg.go", Native: func(m *Machine, fr *frame, _ []Value) Value {
			m.call(fr, pos, f, nil)
			s.n--
			return nil
		}}
		m.spawn(fr, pos, done, nil)
		return nil
	}
	I["(*sync.Once).Do"] = func(m *Machine, fr *frame, pos token.Pos, _ *ssa.Function, a []Value) Value {
		p := a[0].(*Value)
		if m.onceDone == nil {
			m.onceDone = map[*Value]bool{}
		}
		if m.onceDone[p] {
			return nil
		}
		m.lock(p) // a second caller waits until the first call of f has returned
		s := m.mutex(p)
		if !m.onceDone[p] {
			func() {
				defer func() { m.onceDone[p] = true; s.locked = false }()
				m.call(fr, pos, a[1], nil)
			}()
		} else {
			s.locked = false
		}
		return nil
	}
	// sync.Pool: Get returns nil-or-previously-Put (decision); New is used when nil.
	I["(*sync.Pool).Get"] = func(m *Machine, fr *frame, pos token.Pos, _ *ssa.Function, a []Value) Value {
		p := a[0].(*Value)
		items := m.poolItems[p]
		c := 0
		if len(items) > 0 {
			if m.Spec.PoolMode == "reuse" {
				c = len(items)
			} else {
				c = m.choose("pool", len(items)+1)
			}
		}
		if c > 0 {
			it := items[c-1]
			m.poolItems[p] = append(items[:c-1:c-1], items[c:]...)
			return it
		}
		st := (*p).(Struct)
		newf := st[len(st)-1]
		if cl, ok := newf.(*Closure); ok && cl != nil {
			return m.call(fr, pos, cl, nil)
		}
		return Iface{}
	}
	I["(*sync.Pool).Put"] = func(m *Machine, _ *frame, _ token.Pos, _ *ssa.Function, a []Value) Value {
		p := a[0].(*Value)
		m.poolItems[p] = append(m.poolItems[p], a[1])
		m.poolPuts[p]++
		return nil
	}
	// sync.Map as an association list
	I["(*sync.Map).Load"] = func(m *Machine, _ *frame, _ token.Pos, _ *ssa.Function, a []Value) Value {
		mp := m.syncMap(a[0].(*Value))
		if i := m.mapFind(mp, a[1]); i >= 0 {
			return Tuple{mp.Vals[i], m.F.True()}
		}
		return Tuple{Iface{}, m.F.False()}
	}
	I["(*sync.Map).Store"] = func(m *Machine, _ *frame, _ token.Pos, _ *ssa.Function, a []Value) Value {
		m.mapInsert(m.syncMap(a[0].(*Value)), a[1], a[2])
		return nil
	}
	I["(*sync.Map).LoadOrStore"] = func(m *Machine, _ *frame, _ token.Pos, _ *ssa.Function, a []Value) Value {
		mp := m.syncMap(a[0].(*Value))
		if i := m.mapFind(mp, a[1]); i >= 0 {
			return Tuple{mp.Vals[i], m.F.True()}
		}
		m.mapInsert(mp, a[1], a[2])
		return Tuple{a[2], m.F.False()}
	}
	I["(*sync.Map).Delete"] = func(m *Machine, _ *frame, _ token.Pos, _ *ssa.Function, a []Value) Value {
		m.mapDelete(m.syncMap(a[0].(*Value)), a[1])
		return nil
	}
	I["(*sync.Map).Range"] = func(m *Machine, fr *frame, pos token.Pos, _ *ssa.Function, a []Value) Value {
		mp := m.syncMap(a[0].(*Value))
		keys := append([]Value(nil), mp.Keys...)
		vals := append([]Value(nil), mp.Vals...)
		for i := range keys {
			r := m.call(fr, pos, a[1], []Value{keys[i], vals[i]})
			if !m.branch(r.(*sym.Term)) {
				break
			}
		}
		return nil
	}

	// --- sync/atomic ---
	load := func(m *Machine, _ *frame, _ token.Pos, _ *ssa.Function, a []Value) Value {
		m.schedPoint("atomic")
		return copyVal(*ptrArg(m, a[0]))
	}
	storeF := func(m *Machine, _ *frame, _ token.Pos, _ *ssa.Function, a []Value) Value {
		m.schedPoint("atomic")
		*ptrArg(m, a[0]) = a[1]
		return nil
	}
	add := func(m *Machine, _ *frame, _ token.Pos, _ *ssa.Function, a []Value) Value {
		m.schedPoint("atomic")
		p := ptrArg(m, a[0])
		n := m.F.Bin(sym.OAdd, (*p).(*sym.Term), a[1].(*sym.Term))
		*p = n
		return n
	}
	swap := func(m *Machine, _ *frame, _ token.Pos, _ *ssa.Function, a []Value) Value {
		m.schedPoint("atomic")
		p := ptrArg(m, a[0])
		old := *p
		*p = a[1]
		return old
	}
	cas := func(m *Machine, _ *frame, _ token.Pos, fn *ssa.Function, a []Value) Value {
		m.schedPoint("atomic")
		p := ptrArg(m, a[0])
		var eq *sym.Term
		switch cur := (*p).(type) {
		case *sym.Term:
			eq = m.F.Eq(cur, a[1].(*sym.Term))
		case UPtr:
			o := a[1].(UPtr)
			eq = m.boolT(cur.P == o.P)
		case *Value:
			eq = m.boolT(cur == a[1].(*Value))
		default:
			panic(unsupported(fmt.Sprintf("CAS on %T", cur)))
		}
		if m.branch(eq) {
			*p = a[2]
			return m.F.True()
		}
		return m.F.False()
	}
	for _, t := range []string{"Int32", "Int64", "Uint32", "Uint64", "Uintptr", "Pointer"} {
		I["sync/atomic.Load"+t] = load
		I["sync/atomic.Store"+t] = storeF
		I["sync/atomic.Swap"+t] = swap
		I["sync/atomic.CompareAndSwap"+t] = cas
		if t != "Pointer" {
			I["sync/atomic.Add"+t] = add
		}
	}
	I["(*sync/atomic.Value).Load"] = func(m *Machine, _ *frame, _ token.Pos, _ *ssa.Function, a []Value) Value {
		m.schedPoint("atomic")
		p := a[0].(*Value)
		if v, ok := m.atomicVals[p]; ok {
			return v
		}
		return Iface{}
	}
	I["(*sync/atomic.Value).Store"] = func(m *Machine, _ *frame, _ token.Pos, _ *ssa.Function, a []Value) Value {
		m.schedPoint("atomic")
		m.atomicVals[a[0].(*Value)] = a[1]
		return nil
	}
	I["(*sync/atomic.Value).Swap"] = func(m *Machine, _ *frame, _ token.Pos, _ *ssa.Function, a []Value) Value {
		m.schedPoint("atomic")
		p := a[0].(*Value)
		old, ok := m.atomicVals[p]
		m.atomicVals[p] = a[1]
		if !ok {
			return Iface{}
		}
		return old
	}
	I["(*sync/atomic.Value).CompareAndSwap"] = func(m *Machine, _ *frame, _ token.Pos, _ *ssa.Function, a []Value) Value {
		m.schedPoint("atomic")
		p := a[0].(*Value)
		old, ok := m.atomicVals[p]
		if !ok {
			old = Iface{}
		}
		if m.branch(m.equals(types.NewInterfaceType(nil, nil), old, a[1])) {
			m.atomicVals[p] = a[2]
			return m.F.True()
		}
		return m.F.False()
	}

	// --- runtime / internal ---
	I["runtime.KeepAlive"] = nop
	I["runtime.SetFinalizer"] = nop
	I["runtime.Gosched"] = func(m *Machine, _ *frame, _ token.Pos, _ *ssa.Function, a []Value) Value {
		m.schedPoint("gosched")
		return nil
	}
	I["runtime.GOMAXPROCS"] = func(m *Machine, _ *frame, _ token.Pos, _ *ssa.Function, a []Value) Value { return m.i64(4) }
	I["runtime.NumCPU"] = func(m *Machine, _ *frame, _ token.Pos, _ *ssa.Function, a []Value) Value { return m.i64(4) }
	I["runtime.Callers"] = func(m *Machine, _ *frame, _ token.Pos, _ *ssa.Function, a []Value) Value { return m.i64(0) }
	I["runtime.Caller"] = func(m *Machine, _ *frame, _ token.Pos, _ *ssa.Function, a []Value) Value {
		return Tuple{m.bv(64, 0), Str{S: "?"}, m.i64(0), m.F.False()}
	}
	I["internal/abi.NoEscape"] = func(m *Machine, _ *frame, _ token.Pos, _ *ssa.Function, a []Value) Value { return a[0] }
	I["internal/abi.Escape"] = func(m *Machine, _ *frame, _ token.Pos, _ *ssa.Function, a []Value) Value { return a[0] }
	I["internal/race.Enabled"] = nop
	I["internal/godebug.(*Setting).Value"] = func(m *Machine, _ *frame, _ token.Pos, _ *ssa.Function, a []Value) Value { return Str{} }
	I["internal/godebug.(*Setting).IncNonDefault"] = nop
	I["internal/bytealg.IndexByteString"] = func(m *Machine, _ *frame, _ token.Pos, _ *ssa.Function, a []Value) Value {
		return m.indexByte(m.strBytes(m.strOf(a[0])), a[1].(*sym.Term))
	}
	I["internal/bytealg.IndexByte"] = func(m *Machine, _ *frame, _ token.Pos, _ *ssa.Function, a []Value) Value {
		return m.indexByte(m.sliceBytes(a[0].(Slice)), a[1].(*sym.Term))
	}
	I["internal/bytealg.LastIndexByteString"] = func(m *Machine, _ *frame, _ token.Pos, _ *ssa.Function, a []Value) Value {
		return m.lastIndexByte(m.strBytes(m.strOf(a[0])), a[1].(*sym.Term))
	}
	I["internal/bytealg.CountString"] = func(m *Machine, _ *frame, _ token.Pos, _ *ssa.Function, a []Value) Value {
		return m.countByte(m.strBytes(m.strOf(a[0])), a[1].(*sym.Term))
	}
	I["internal/bytealg.Count"] = func(m *Machine, _ *frame, _ token.Pos, _ *ssa.Function, a []Value) Value {
		return m.countByte(m.sliceBytes(a[0].(Slice)), a[1].(*sym.Term))
	}
	I["internal/bytealg.Equal"] = func(m *Machine, _ *frame, _ token.Pos, _ *ssa.Function, a []Value) Value {
		return m.strEq(mkStr(m.sliceBytes(a[0].(Slice))), mkStr(m.sliceBytes(a[1].(Slice))))
	}
	I["bytes.Equal"] = I["internal/bytealg.Equal"]
	I["internal/bytealg.Compare"] = func(m *Machine, _ *frame, _ token.Pos, _ *ssa.Function, a []Value) Value {
		return m.cmpStr(mkStr(m.sliceBytes(a[0].(Slice))), mkStr(m.sliceBytes(a[1].(Slice))))
	}
	I["bytes.Compare"] = I["internal/bytealg.Compare"]
	I["internal/bytealg.CompareString"] = func(m *Machine, _ *frame, _ token.Pos, _ *ssa.Function, a []Value) Value {
		return m.cmpStr(m.strOf(a[0]), m.strOf(a[1]))
	}
	I["strings.Compare"] = I["internal/bytealg.CompareString"]
	I["cmp.Compare[string]"] = I["internal/bytealg.CompareString"]
	I["internal/bytealg.IndexString"] = func(m *Machine, _ *frame, _ token.Pos, _ *ssa.Function, a []Value) Value {
		return m.indexStr(m.strOf(a[0]), m.strOf(a[1]))
	}
	I["strings.Index"] = I["internal/bytealg.IndexString"]
	I["internal/stringslite.Index"] = I["internal/bytealg.IndexString"]
	I["internal/bytealg.Index"] = func(m *Machine, _ *frame, _ token.Pos, _ *ssa.Function, a []Value) Value {
		return m.indexStr(mkStr(m.sliceBytes(a[0].(Slice))), mkStr(m.sliceBytes(a[1].(Slice))))
	}
	I["bytes.Index"] = I["internal/bytealg.Index"]
	I["internal/bytealg.MakeNoZero"] = func(m *Machine, _ *frame, _ token.Pos, _ *ssa.Function, a []Value) Value {
		n := int(m.concInt(a[0], "MakeNoZero"))
		s := make(Slice, n)
		for i := range s {
			s[i] = m.bv(8, 0)
		}
		return s
	}
	I["strings.EqualFold"] = func(m *Machine, _ *frame, _ token.Pos, _ *ssa.Function, a []Value) Value {
		x, y := m.strOf(a[0]), m.strOf(a[1])
		if x.Concrete() && y.Concrete() {
			return m.boolT(strings.EqualFold(x.S, y.S))
		}
		panic(unsupported("strings.EqualFold on symbolic strings"))
	}

	// --- math ---
	I["math.Float64bits"] = func(m *Machine, _ *frame, _ token.Pos, _ *ssa.Function, a []Value) Value {
		return m.floatBits(a[0].(*FloatV))
	}
	I["math.Float64frombits"] = func(m *Machine, _ *frame, _ token.Pos, _ *ssa.Function, a []Value) Value {
		return m.floatFromBits(a[0].(*sym.Term))
	}
	I["math.Float32bits"] = func(m *Machine, _ *frame, _ token.Pos, _ *ssa.Function, a []Value) Value {
		f := a[0].(*FloatV)
		if f.IsConst() {
			return m.bv(32, uint64(math.Float32bits(float32(f.Const()))))
		}
		panic(unsupported("Float32bits symbolic"))
	}
	I["math.Float32frombits"] = func(m *Machine, _ *frame, _ token.Pos, _ *ssa.Function, a []Value) Value {
		t := a[0].(*sym.Term)
		if t.IsConst() {
			return m.fromNative(float64(math.Float32frombits(uint32(t.C))), true)
		}
		panic(unsupported("Float32frombits symbolic"))
	}
	mathFn := func(native func(float64) float64, op sym.Op, i53identity bool) intrinsicFn {
		return func(m *Machine, _ *frame, _ token.Pos, _ *ssa.Function, a []Value) Value {
			f := a[0].(*FloatV)
			if f.IsConst() {
				return m.fromNative(native(f.Const()), false)
			}
			switch m.floatMode() {
			case "int53":
				if i53identity {
					return f
				}
			case "ieee":
				if op != 0 {
					return &FloatV{FP: m.F.FPUn(op, sym.FP64, m.asFP(f))}
				}
			}
			panic(unsupported("math function on symbolic float"))
		}
	}
	I["math.Floor"] = mathFn(math.Floor, sym.OFPRoundFloor, true)
	I["math.Ceil"] = mathFn(math.Ceil, sym.OFPRoundCeil, true)
	I["math.Trunc"] = mathFn(math.Trunc, sym.OFPRoundTrunc, true)
	I["math.Sqrt"] = mathFn(math.Sqrt, 0, false)
	I["math.Log"] = mathFn(math.Log, 0, false)
	I["math.Log2"] = mathFn(math.Log2, 0, false)
	I["math.Exp"] = mathFn(math.Exp, 0, false)
	I["math.Abs"] = func(m *Machine, _ *frame, _ token.Pos, _ *ssa.Function, a []Value) Value {
		f := a[0].(*FloatV)
		if f.IsConst() {
			return m.fromNative(math.Abs(f.Const()), false)
		}
		if m.floatMode() == "int53" {
			x := m.toI53(f)
			return &FloatV{I: m.F.Ite(m.F.Bin(sym.OSLT, x.I, m.i64(0)), m.F.Neg(x.I), x.I), NaN: x.NaN}
		}
		if f.Bits != nil {
			return &FloatV{Bits: m.F.Bin(sym.OBAnd, f.Bits, m.bv(64, 1<<63-1))}
		}
		panic(unsupported("math.Abs"))
	}
	I["math.IsNaN"] = func(m *Machine, _ *frame, _ token.Pos, _ *ssa.Function, a []Value) Value {
		f := a[0].(*FloatV)
		return m.F.Not(m.floatCmp("==", f, f))
	}
	I["math.Pow"] = func(m *Machine, _ *frame, _ token.Pos, _ *ssa.Function, a []Value) Value {
		x, y := a[0].(*FloatV), a[1].(*FloatV)
		if x.IsConst() && y.IsConst() {
			return m.fromNative(math.Pow(x.Const(), y.Const()), false)
		}
		panic(unsupported("math.Pow symbolic"))
	}
	I["math.Mod"] = func(m *Machine, _ *frame, _ token.Pos, _ *ssa.Function, a []Value) Value {
		x, y := a[0].(*FloatV), a[1].(*FloatV)
		if x.IsConst() && y.IsConst() {
			return m.fromNative(math.Mod(x.Const(), y.Const()), false)
		}
		panic(unsupported("math.Mod symbolic"))
	}

	// --- time ---
	I["time.Now"] = func(m *Machine, _ *frame, _ token.Pos, fn *ssa.Function, a []Value) Value {
		return m.timeNow(fn)
	}
	I["time.runtimeNano"] = func(m *Machine, _ *frame, _ token.Pos, fn *ssa.Function, a []Value) Value {
		return m.i64(0)
	}
	I["time.Sleep"] = func(m *Machine, _ *frame, _ token.Pos, fn *ssa.Function, a []Value) Value {
		m.schedPoint("sleep")
		return nil
	}

	// --- errors ---
	I["errors.Is"] = func(m *Machine, fr *frame, pos token.Pos, _ *ssa.Function, a []Value) Value {
		return m.boolT(m.errorsIs(fr, pos, a[0].(Iface), a[1].(Iface)))
	}
	I["errors.As"] = func(m *Machine, fr *frame, pos token.Pos, _ *ssa.Function, a []Value) Value {
		return m.boolT(m.errorsAs(fr, pos, a[0].(Iface), a[1].(Iface)))
	}
	I["github.com/pkg/errors.Is"] = I["errors.Is"]
	I["github.com/pkg/errors.As"] = I["errors.As"]
	I["github.com/pkg/errors.callers"] = func(m *Machine, _ *frame, _ token.Pos, fn *ssa.Function, a []Value) Value {
		return m.zero(fn.Signature.Results().At(0).Type())
	}

	// --- fmt ---
	I["fmt.Sprintf"] = func(m *Machine, fr *frame, pos token.Pos, _ *ssa.Function, a []Value) Value {
		return m.sprintf(fr, pos, m.strOf(a[0]), a[1].(Slice))
	}
	I["fmt.Sprint"] = func(m *Machine, fr *frame, pos token.Pos, _ *ssa.Function, a []Value) Value {
		return m.sprint(fr, pos, a[0].(Slice), false)
	}
	I["fmt.Sprintln"] = func(m *Machine, fr *frame, pos token.Pos, _ *ssa.Function, a []Value) Value {
		return m.sprint(fr, pos, a[0].(Slice), true)
	}
	I["fmt.Errorf"] = func(m *Machine, fr *frame, pos token.Pos, fn *ssa.Function, a []Value) Value {
		return m.errorf(fr, pos, m.strOf(a[0]), a[1].(Slice))
	}
	I["github.com/pkg/errors.Errorf"] = func(m *Machine, fr *frame, pos token.Pos, fn *ssa.Function, a []Value) Value {
		s := m.sprintf(fr, pos, m.strOf(a[0]), a[1].(Slice))
		return m.callNamed(fr, pos, "github.com/pkg/errors", "New", []Value{s})
	}
	I["github.com/pkg/errors.Wrapf"] = func(m *Machine, fr *frame, pos token.Pos, fn *ssa.Function, a []Value) Value {
		if a[0].(Iface).T == nil {
			return Iface{}
		}
		s := m.sprintf(fr, pos, m.strOf(a[1]), a[2].(Slice))
		return m.callNamed(fr, pos, "github.com/pkg/errors", "Wrap", []Value{a[0], s})
	}
	I["github.com/pkg/errors.WithMessagef"] = func(m *Machine, fr *frame, pos token.Pos, fn *ssa.Function, a []Value) Value {
		if a[0].(Iface).T == nil {
			return Iface{}
		}
		s := m.sprintf(fr, pos, m.strOf(a[1]), a[2].(Slice))
		return m.callNamed(fr, pos, "github.com/pkg/errors", "WithMessage", []Value{a[0], s})
	}
	I["fmt.Fprintf"] = func(m *Machine, fr *frame, pos token.Pos, fn *ssa.Function, a []Value) Value {
		return Tuple{m.i64(0), Iface{}}
	}
	I["fmt.Fprintln"] = I["fmt.Fprintf"]
	I["fmt.Fprint"] = I["fmt.Fprintf"]
	I["fmt.Printf"] = I["fmt.Fprintf"]
	I["fmt.Println"] = I["fmt.Fprintf"]
	I["fmt.Print"] = I["fmt.Fprintf"]

	// --- sort ---
	I["sort.Slice"] = func(m *Machine, fr *frame, pos token.Pos, _ *ssa.Function, a []Value) Value {
		m.sortSlice(fr, pos, a[0].(Iface), a[1], false)
		return nil
	}
	I["sort.SliceStable"] = func(m *Machine, fr *frame, pos token.Pos, _ *ssa.Function, a []Value) Value {
		m.sortSlice(fr, pos, a[0].(Iface), a[1], true)
		return nil
	}
	I["sort.SliceIsSorted"] = func(m *Machine, fr *frame, pos token.Pos, _ *ssa.Function, a []Value) Value {
		sl := a[0].(Iface).V.(Slice)
		for i := len(sl) - 1; i > 0; i-- {
			r := m.call(fr, pos, a[1], []Value{m.i64(int64(i)), m.i64(int64(i - 1))}).(*sym.Term)
			if m.branch(r) {
				return m.F.False()
			}
		}
		return m.F.True()
	}

	// --- hashes as uninterpreted functions ---
	I["github.com/cespare/xxhash/v2.Sum64"] = func(m *Machine, _ *frame, _ token.Pos, _ *ssa.Function, a []Value) Value {
		return m.ufString("uf_xxhash", mkStr(m.sliceBytes(a[0].(Slice))))
	}
	I["github.com/cespare/xxhash/v2.Sum64String"] = func(m *Machine, _ *frame, _ token.Pos, _ *ssa.Function, a []Value) Value {
		return m.ufString("uf_xxhash", m.strOf(a[0]))
	}
	I["hash/crc32.Checksum"] = func(m *Machine, _ *frame, _ token.Pos, _ *ssa.Function, a []Value) Value {
		return m.F.Extract(m.ufString("uf_crc32", mkStr(m.sliceBytes(a[0].(Slice)))), 31, 0)
	}
	I["hash/crc32.ChecksumIEEE"] = I["hash/crc32.Checksum"]
	I["hash/crc32.Update"] = func(m *Machine, _ *frame, _ token.Pos, _ *ssa.Function, a []Value) Value {
		// crc(prev, bytes): UF over (prev, bytes)
		prev := a[0].(*sym.Term)
		h := m.ufString("uf_crc32u", mkStr(append([]*sym.Term{m.F.Extract(prev, 7, 0), m.F.Extract(prev, 15, 8), m.F.Extract(prev, 23, 16), m.F.Extract(prev, 31, 24)}, m.sliceBytes(a[2].(Slice))...)))
		return m.F.Extract(h, 31, 0)
	}
	I["hash/crc32.MakeTable"] = func(m *Machine, _ *frame, _ token.Pos, fn *ssa.Function, a []Value) Value {
		return m.zero(fn.Signature.Results().At(0).Type())
	}

	// --- unsafe helpers appearing as functions ---
	I["strings.(*Builder).copyCheck"] = nop
	I["unique.Make[string]"] = nil
	delete(I, "unique.Make[string]")

	prefixIntrinsics = []prefixIntr{
		{"(*sync/atomic.Pointer[", nil},
	}
	prefixIntrinsics = nil
	_ = sort.Ints
}

func (m *Machine) sliceBytes(s Slice) []*sym.Term {
	b := make([]*sym.Term, len(s))
	for i := range s {
		b[i] = s[i].(*sym.Term)
	}
	return b
}

func (m *Machine) indexByte(b []*sym.Term, c *sym.Term) Value {
	c = m.toWidth(c, 8, false)
	for i, x := range b {
		if m.branch(m.F.Eq(x, c)) {
			return m.i64(int64(i))
		}
	}
	return m.i64(-1)
}

func (m *Machine) lastIndexByte(b []*sym.Term, c *sym.Term) Value {
	c = m.toWidth(c, 8, false)
	for i := len(b) - 1; i >= 0; i-- {
		if m.branch(m.F.Eq(b[i], c)) {
			return m.i64(int64(i))
		}
	}
	return m.i64(-1)
}

func (m *Machine) countByte(b []*sym.Term, c *sym.Term) Value {
	c = m.toWidth(c, 8, false)
	n := m.i64(0)
	for _, x := range b {
		n = m.F.Bin(sym.OAdd, n, m.F.Ite(m.F.Eq(x, c), m.i64(1), m.i64(0)))
	}
	return n
}

func (m *Machine) cmpStr(a, b Str) Value {
	if a.Concrete() && b.Concrete() {
		return m.i64(int64(strings.Compare(a.S, b.S)))
	}
	lt := m.strLess(a, b)
	eq := m.strEq(a, b)
	return m.F.Ite(lt, m.i64(-1), m.F.Ite(eq, m.i64(0), m.i64(1)))
}

func (m *Machine) indexStr(s, sub Str) Value {
	if s.Concrete() && sub.Concrete() {
		return m.i64(int64(strings.Index(s.S, sub.S)))
	}
	n, k := s.Len(), sub.Len()
	for i := 0; i+k <= n; i++ {
		if m.branch(m.strEq(m.strSlice(s, i, i+k), sub)) {
			return m.i64(int64(i))
		}
	}
	return m.i64(-1)
}

func (m *Machine) syncMap(p *Value) *Map {
	if mp, ok := m.syncMaps[p]; ok {
		return mp
	}
	e := types.NewInterfaceType(nil, nil)
	mp := &Map{KeyT: e, ValT: e}
	m.syncMaps[p] = mp
	return mp
}

// callNamed calls pkg.fn by name.
func (m *Machine) callNamed(fr *frame, pos token.Pos, pkgPath, name string, args []Value) Value {
	p := m.W.Prog.ImportedPackage(pkgPath)
	if p == nil {
		panic(unsupported("package not loaded: " + pkgPath))
	}
	f := p.Func(name)
	if f == nil {
		panic(unsupported("function not found: " + pkgPath + "." + name))
	}
	return m.callSSA(fr, pos, f, args, nil)
}

// timeNow returns an arbitrary, non-decreasing wall-clock instant (no monotonic reading).
func (m *Machine) timeNow(fn *ssa.Function) Value {
	// time.Time{wall uint64, ext int64, loc *Location}; wall without hasMonotonic: ext = seconds since year 1, wall low 30 bits = nsec
	if m.Spec.ClockLo != 0 && m.Spec.ClockLo == m.Spec.ClockHi {
		// fixed clock: the harness does not depend on time (seeds of random sources and the like)
		const unixToInternal0 = (1969*365 + 1969/4 - 1969/100 + 1969/400) * 86400
		return Struct{m.bv(64, 0), m.i64(m.Spec.ClockLo + unixToInternal0), (*Value)(nil)}
	}
	sec := m.F.Var(fmt.Sprintf("v_now%d_sec", m.clockN), sym.BV(64))
	var nsec *sym.Term
	if m.Spec.ClockNanos {
		nsec = m.F.Var(fmt.Sprintf("v_now%d_nsec", m.clockN), sym.BV(64))
		m.addPC(m.F.Bin(sym.OULT, nsec, m.bv(64, 1000000000)))
	} else {
		nsec = m.bv(64, 0)
	}
	m.clockN++
	// unix seconds within [ClockLo, ClockHi]
	lo, hi := m.Spec.ClockLo, m.Spec.ClockHi
	if hi == 0 {
		lo, hi = 1_600_000_000, 1_900_000_000
	}
	m.addPC(m.F.And(m.F.Bin(sym.OSLE, m.i64(lo), sec), m.F.Bin(sym.OSLE, sec, m.i64(hi))))
	if m.clock != nil {
		// non-decreasing instants: (sec, nsec) ordered lexicographically
		// Componentwise non-decreasing (second and nanosecond part). This leaves out runs in which the second
		// ticks over between two reads; harnesses that read the clock several times state that the reads fall
		// into one wall-clock second, for which the model is exact.
		m.addPC(m.F.Bin(sym.OSLE, m.clock, sec))
		m.addPC(m.F.Bin(sym.OSLE, m.clockNs, nsec))
	}
	m.clock = sec
	m.clockNs = nsec
	const unixToInternal = (1969*365 + 1969/4 - 1969/100 + 1969/400) * 86400
	ext := m.F.Bin(sym.OAdd, sec, m.i64(unixToInternal))
	t := Struct{nsec, ext, (*Value)(nil)}
	return t
}
