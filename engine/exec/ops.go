package exec

import (
	"unsafe"
	"fmt"
	"go/token"
	"go/types"
	"math"
	"unicode/utf8"

	"golang.org/x/tools/go/ssa"

	"verif/engine/sym"
)

func (m *Machine) unop(fr *frame, instr *ssa.UnOp, x Value) Value {
	switch instr.Op {
	case token.ARROW:
		return m.chanRecv(x.(*Chan), instr.CommaOk)
	case token.SUB:
		switch x := x.(type) {
		case *sym.Term:
			return m.F.Neg(x)
		case *FloatV:
			return m.floatNeg(x)
		}
	case token.MUL:
		p, ok := x.(*Value)
		if !ok {
			panic(unsupported(fmt.Sprintf("load through %T", x)))
		}
		if p == nil {
			panic(m.goPanic("invalid memory address or nil pointer dereference"))
		}
		return copyVal(*p)
	case token.NOT:
		return m.F.Not(x.(*sym.Term))
	case token.XOR:
		return m.F.BNot(x.(*sym.Term))
	}
	panic(unsupported(fmt.Sprintf("unop %s on %T", instr.Op, x)))
}

func (m *Machine) shiftCount(y *sym.Term, yt types.Type, w int) *sym.Term {
	// Go: negative signed count panics; counts >= width give 0 / sign fill, same as SMT when widths agree.
	if y.Sort.W == w {
		return y
	}
	if y.Sort.W < w {
		return m.F.ZExt(y, w)
	}
	// wider count: saturate
	if y.IsConst() {
		if y.C >= uint64(w) {
			return m.bv(w, uint64(w))
		}
		return m.bv(w, y.C)
	}
	big := m.F.Bin(sym.OULE, m.F.Const(y.Sort, uint64(w)), y)
	return m.F.Ite(big, m.bv(w, uint64(w)), m.F.Extract(y, w-1, 0))
}

func (m *Machine) binop(op token.Token, t types.Type, x, y Value, yt types.Type) Value {
	switch xv := x.(type) {
	case *sym.Term:
		yv, ok := y.(*sym.Term)
		if !ok {
			break
		}
		if xv.Sort.K == sym.KBool {
			switch op {
			case token.EQL:
				return m.F.Eq(xv, yv)
			case token.NEQ:
				return m.F.Not(m.F.Eq(xv, yv))
			case token.AND, token.LAND:
				return m.F.And(xv, yv)
			case token.OR, token.LOR:
				return m.F.Or(xv, yv)
			}
			break
		}
		signed := isSigned(t)
		switch op {
		case token.ADD:
			return m.F.Bin(sym.OAdd, xv, yv)
		case token.SUB:
			return m.F.Bin(sym.OSub, xv, yv)
		case token.MUL:
			return m.F.Bin(sym.OMul, xv, yv)
		case token.QUO, token.REM:
			z := m.F.Eq(yv, m.F.Const(yv.Sort, 0))
			if m.branch(z) {
				panic(m.goPanic("integer divide by zero"))
			}
			if yv.IsConst() && !xv.IsConst() && xv.Sort.W == 64 && m.Spec.DivAxioms {
				q, r := m.divByConst(xv, yv, signed)
				if op == token.QUO {
					return q
				}
				return r
			}
			var o sym.Op
			switch {
			case op == token.QUO && signed:
				o = sym.OSDiv
			case op == token.QUO:
				o = sym.OUDiv
			case signed:
				o = sym.OSRem
			default:
				o = sym.OURem
			}
			return m.F.Bin(o, xv, yv)
		case token.AND:
			return m.F.Bin(sym.OBAnd, xv, yv)
		case token.OR:
			return m.F.Bin(sym.OBOr, xv, yv)
		case token.XOR:
			return m.F.Bin(sym.OBXor, xv, yv)
		case token.AND_NOT:
			return m.F.Bin(sym.OBAnd, xv, m.F.BNot(yv))
		case token.SHL, token.SHR:
			if isSigned(yt) {
				neg := m.F.Bin(sym.OSLT, yv, m.F.Const(yv.Sort, 0))
				if m.branch(neg) {
					panic(m.goPanic("negative shift amount"))
				}
			}
			c := m.shiftCount(yv, yt, xv.Sort.W)
			if op == token.SHL {
				return m.F.Bin(sym.OShl, xv, c)
			}
			if signed {
				return m.F.Bin(sym.OAShr, xv, c)
			}
			return m.F.Bin(sym.OLShr, xv, c)
		case token.EQL:
			return m.F.Eq(xv, yv)
		case token.NEQ:
			return m.F.Not(m.F.Eq(xv, yv))
		case token.LSS:
			if signed {
				return m.F.Bin(sym.OSLT, xv, yv)
			}
			return m.F.Bin(sym.OULT, xv, yv)
		case token.LEQ:
			if signed {
				return m.F.Bin(sym.OSLE, xv, yv)
			}
			return m.F.Bin(sym.OULE, xv, yv)
		case token.GTR:
			if signed {
				return m.F.Bin(sym.OSLT, yv, xv)
			}
			return m.F.Bin(sym.OULT, yv, xv)
		case token.GEQ:
			if signed {
				return m.F.Bin(sym.OSLE, yv, xv)
			}
			return m.F.Bin(sym.OULE, yv, xv)
		}
	case *FloatV:
		yv := y.(*FloatV)
		switch op {
		case token.ADD, token.SUB, token.MUL, token.QUO:
			return m.floatArith(op, xv, yv)
		case token.EQL:
			return m.floatCmp("==", xv, yv)
		case token.NEQ:
			return m.F.Not(m.floatCmp("==", xv, yv))
		case token.LSS:
			return m.floatCmp("<", xv, yv)
		case token.LEQ:
			return m.floatCmp("<=", xv, yv)
		case token.GTR:
			return m.floatCmp("<", yv, xv)
		case token.GEQ:
			return m.floatCmp("<=", yv, xv)
		}
	case Str:
		yv := y.(Str)
		switch op {
		case token.ADD:
			return m.strConcat(xv, yv)
		case token.EQL:
			return m.strEq(xv, yv)
		case token.NEQ:
			return m.F.Not(m.strEq(xv, yv))
		case token.LSS:
			return m.strLess(xv, yv)
		case token.LEQ:
			return m.F.Not(m.strLess(yv, xv))
		case token.GTR:
			return m.strLess(yv, xv)
		case token.GEQ:
			return m.F.Not(m.strLess(xv, yv))
		}
	}
	switch op {
	case token.EQL:
		return m.equals(t, x, y)
	case token.NEQ:
		return m.F.Not(m.equals(t, x, y))
	}
	panic(unsupported(fmt.Sprintf("binop %s on %T,%T", op, x, y)))
}

// conv implements Convert.
func (m *Machine) conv(dst, src types.Type, x Value) Value {
	ud := dst.Underlying()
	us := src.Underlying()
	if tp, ok := ud.(*types.TypeParam); ok {
		_ = tp
		panic(unsupported("conversion to type parameter"))
	}
	switch ud := ud.(type) {
	case *types.Pointer:
		switch x := x.(type) {
		case *Value:
			return x
		case UPtr:
			if x.Kind == 0 {
				return x.P
			}
			if x.Kind == 2 {
				// pointer to first element of slice data
				if len(x.Sl) == 0 {
					return (*Value)(nil)
				}
				return &x.Sl[0]
			}
			panic(unsupported("unsafe.Pointer (string data) to typed pointer"))
		}
	case *types.Slice:
		// string -> []byte / []rune
		if s, ok := x.(Str); ok {
			eb := ud.Elem().Underlying().(*types.Basic)
			if eb.Kind() == types.Uint8 {
				r := make(Slice, s.Len())
				for i := range r {
					r[i] = m.strByte(s, i)
				}
				return r
			}
			if eb.Kind() == types.Int32 {
				if s.B != nil {
					// ASCII-only assumption for symbolic strings
					r := make(Slice, s.Len())
					for i := range r {
						m.assumeASCII(s.B[i])
						r[i] = m.F.ZExt(s.B[i], 32)
					}
					return r
				}
				rs := []rune(s.S)
				r := make(Slice, len(rs))
				for i := range r {
					r[i] = m.bv(32, uint64(rs[i]))
				}
				return r
			}
		}
		if sl, ok := x.(Slice); ok {
			return sl
		}
	case *types.Basic:
		if ud.Kind() == types.UnsafePointer {
			switch x := x.(type) {
			case *Value:
				return UPtr{P: x}
			case UPtr:
				return x
			case *sym.Term:
				if x.IsConst() && x.C == 0 {
					return UPtr{}
				}
			}
			panic(unsupported(fmt.Sprintf("conversion %T to unsafe.Pointer", x)))
		}
		if ud.Info()&types.IsString != 0 {
			switch x := x.(type) {
			case Str:
				return x
			case Slice:
				// []byte or []rune -> string
				eb := us.(*types.Slice).Elem().Underlying().(*types.Basic)
				if eb.Kind() == types.Uint8 {
					b := make([]*sym.Term, len(x))
					for i := range x {
						b[i] = x[i].(*sym.Term)
					}
					return mkStr(b)
				}
				var out []byte
				for i := range x {
					t := x[i].(*sym.Term)
					if !t.IsConst() {
						panic(unsupported("[]rune with symbolic runes to string"))
					}
					out = utf8.AppendRune(out, rune(t.Int64()))
				}
				return Str{S: string(out)}
			case *sym.Term:
				// integer -> string (rune)
				if !x.IsConst() {
					m.assumeASCII(m.toWidth(x, 8, false))
					hi := m.F.Bin(sym.OULT, m.toWidth(x, 64, isSigned(src)), m.bv(64, 128))
					m.assume(hi)
					return Str{B: []*sym.Term{m.toWidth(x, 8, false)}}
				}
				return Str{S: string(rune(x.Int64()))}
			}
		}
		if ud.Info()&types.IsInteger != 0 {
			w, _ := basicWidth(ud.Kind())
			switch x := x.(type) {
			case *sym.Term:
				return m.toWidth(x, w, isSigned(src))
			case *FloatV:
				return m.floatToInt(x, w, isSigned(dst))
			case UPtr:
				if ud.Kind() == types.Uintptr {
					if x.P == nil && x.Kind == 0 {
						return m.bv(64, 0)
					}
					return m.bv(64, uint64(m.objID(x.P))*4096)
				}
			}
		}
		if ud.Info()&types.IsFloat != 0 {
			switch x := x.(type) {
			case *sym.Term:
				return m.intToFloat(x, isSigned(src), ud.Kind() == types.Float32)
			case *FloatV:
				return m.floatConv(x, ud.Kind() == types.Float32)
			}
		}
		if ud.Info()&types.IsBoolean != 0 {
			return x
		}
	case *types.Array, *types.Struct, *types.Map, *types.Chan, *types.Signature, *types.Interface:
		return x
	}
	panic(unsupported(fmt.Sprintf("conversion %s -> %s (%T)", src, dst, x)))
}

func (m *Machine) assumeASCII(b *sym.Term) {
	if b.IsConst() {
		return
	}
	m.addPC(m.F.Bin(sym.OULT, b, m.F.Const(b.Sort, 128)))
}

func (m *Machine) objID(p *Value) int {
	if id, ok := m.objIDs[p]; ok {
		return id
	}
	id := len(m.objIDs) + 1
	m.objIDs[p] = id
	return id
}

func (m *Machine) sliceOp(instr *ssa.Slice, x, lo, hi, max Value) Value {
	conc := func(v Value, def int, what string) int {
		if v == nil {
			return def
		}
		return int(m.sliceBound(v.(*sym.Term), what))
	}
	switch x := x.(type) {
	case Str:
		n := x.Len()
		l := conc(lo, 0, "slice low")
		h := conc(hi, n, "slice high")
		if l < 0 || h < l || h > n {
			panic(m.goPanic(fmt.Sprintf("slice bounds out of range [%d:%d] with length %d", l, h, n)))
		}
		return m.strSlice(x, l, h)
	case Slice:
		c := cap(x)
		l := conc(lo, 0, "slice low")
		h := conc(hi, len(x), "slice high")
		mx := conc(max, c, "slice max")
		if l < 0 || h < l || mx < h || mx > c {
			panic(m.goPanic(fmt.Sprintf("slice bounds out of range [%d:%d:%d] with capacity %d", l, h, mx, c)))
		}
		if x == nil {
			return Slice(nil)
		}
		return x[l:h:mx]
	case *Value:
		if x == nil {
			panic(m.goPanic("invalid memory address or nil pointer dereference"))
		}
		a := (*x).(Array)
		c := len(a)
		l := conc(lo, 0, "slice low")
		h := conc(hi, c, "slice high")
		mx := conc(max, c, "slice max")
		if l < 0 || h < l || mx < h || mx > c {
			panic(m.goPanic(fmt.Sprintf("slice bounds out of range [%d:%d:%d] with capacity %d", l, h, mx, c)))
		}
		return Slice(a)[l:h:mx]
	}
	panic(unsupported(fmt.Sprintf("slice of %T", x)))
}

// sliceBound concretises a slice bound; symbolic bounds fork over feasible values.
func (m *Machine) sliceBound(t *sym.Term, what string) int64 {
	if t.IsConst() {
		return t.Int64()
	}
	v := m.concretize(t, what)
	return m.F.Const(t.Sort, v).Int64()
}

// ---------- maps ----------

// mapFind returns the index of key in mp (forking on symbolic equality) or -1.
func (m *Machine) mapFind(mp *Map, key Value) int {
	if mp == nil {
		return -1
	}
	for i, k := range mp.Keys {
		eq := m.equals(mp.KeyT, k, key)
		if m.branch(eq) {
			return i
		}
	}
	return -1
}

func (m *Machine) mapInsert(mp *Map, key, val Value) {
	if i := m.mapFind(mp, key); i >= 0 {
		mp.Vals[i] = val
		return
	}
	mp.Keys = append(mp.Keys, copyVal(key))
	mp.Vals = append(mp.Vals, val)
}

func (m *Machine) mapDelete(mp *Map, key Value) {
	if i := m.mapFind(mp, key); i >= 0 {
		mp.Keys = append(mp.Keys[:i:i], mp.Keys[i+1:]...)
		mp.Vals = append(mp.Vals[:i:i], mp.Vals[i+1:]...)
	}
}

func (m *Machine) lookup(instr *ssa.Lookup, x, idx Value) Value {
	switch x := x.(type) {
	case *Map:
		var v Value
		ok := false
		if i := m.mapFind(x, idx); i >= 0 {
			v = copyVal(x.Vals[i])
			ok = true
		} else {
			v = m.zero(instr.X.Type().Underlying().(*types.Map).Elem())
		}
		if instr.CommaOk {
			return Tuple{v, m.boolT(ok)}
		}
		return v
	case Str:
		return m.strIndex(x, idx, instr.Index.Type())
	}
	panic(unsupported(fmt.Sprintf("lookup on %T", x)))
}

func (m *Machine) rangeIter(x Value) Value {
	switch x := x.(type) {
	case *Map:
		it := &mapIter{m: x}
		if x != nil {
			n := len(x.Keys)
			perm := make([]int, n)
			for i := range perm {
				perm[i] = i
			}
			if m.Spec.MapOrder == "anyorder" && n > 1 {
				if n > 4 {
					panic(pathEnd{"unwind", fmt.Sprintf("map range over %d entries in anyorder mode", n)})
				}
				// choose a permutation by successive choices
				avail := append([]int(nil), perm...)
				for i := 0; i < n; i++ {
					c := m.choose("mo", len(avail))
					perm[i] = avail[c]
					avail = append(avail[:c:c], avail[c+1:]...)
				}
			}
			for _, p := range perm {
				it.keys = append(it.keys, x.Keys[p])
				it.vals = append(it.vals, x.Vals[p])
			}
		}
		return it
	case Str:
		return &strIter{s: x}
	}
	panic(unsupported(fmt.Sprintf("range over %T", x)))
}

func (m *Machine) iterNext(it Value, instr *ssa.Next) Value {
	switch it := it.(type) {
	case *mapIter:
		for it.i < len(it.keys) {
			k, v := it.keys[it.i], it.vals[it.i]
			it.i++
			// skip entries deleted during iteration
			still := false
			for j, kk := range it.m.Keys {
				if e := m.equals(it.m.KeyT, kk, k); e.IsTrue() {
					still = true
					v = it.m.Vals[j]
					break
				}
			}
			if !still {
				continue
			}
			return Tuple{m.F.True(), copyVal(k), copyVal(v)}
		}
		tt := instr.Type().(*types.Tuple)
		return Tuple{m.F.False(), m.zeroOrNil(tt.At(1).Type()), m.zeroOrNil(tt.At(2).Type())}
	case *strIter:
		if it.i >= it.s.Len() {
			return Tuple{m.F.False(), m.i64(0), m.bv(32, 0)}
		}
		idx := it.i
		if it.s.B == nil {
			r, sz := utf8.DecodeRuneInString(it.s.S[it.i:])
			it.i += sz
			return Tuple{m.F.True(), m.i64(int64(idx)), m.bv(32, uint64(r))}
		}
		b := it.s.B[it.i]
		m.assumeASCII(b)
		it.i++
		return Tuple{m.F.True(), m.i64(int64(idx)), m.F.ZExt(b, 32)}
	}
	panic(unsupported(fmt.Sprintf("next on %T", it)))
}

func (m *Machine) zeroOrNil(t types.Type) Value {
	if b, ok := t.(*types.Basic); ok && b.Kind() == types.Invalid {
		return nil
	}
	return m.zero(t)
}

// ---------- builtins ----------

func (m *Machine) callBuiltin(caller *frame, pos token.Pos, fn *ssa.Builtin, args []Value) Value {
	switch fn.Name() {
	case "append":
		if len(args) == 1 {
			return args[0]
		}
		if s, ok := args[1].(Str); ok {
			dst := args[0].(Slice)
			n := s.Len()
			out := m.growSlice(dst, n, types.Typ[types.Uint8])
			for i := 0; i < n; i++ {
				out[len(dst)+i] = m.strByte(s, i)
			}
			return out
		}
		dst := args[0].(Slice)
		src := args[1].(Slice)
		if len(src) == 0 {
			return dst
		}
		var et types.Type
		if st, ok := fn.Type().(*types.Signature).Params().At(0).Type().Underlying().(*types.Slice); ok {
			et = st.Elem()
		}
		out := m.growSlice(dst, len(src), et)
		for i, v := range src {
			out[len(dst)+i] = copyVal(v)
		}
		return out
	case "copy":
		dst := args[0].(Slice)
		if s, ok := args[1].(Str); ok {
			n := min(len(dst), s.Len())
			for i := 0; i < n; i++ {
				dst[i] = m.strByte(s, i)
			}
			return m.i64(int64(n))
		}
		src := args[1].(Slice)
		n := min(len(dst), len(src))
		if n > 0 && &dst[0] != &src[0] {
			tmp := make([]Value, n)
			for i := 0; i < n; i++ {
				tmp[i] = copyVal(src[i])
			}
			copy(dst, tmp)
		}
		return m.i64(int64(n))
	case "close":
		m.chanClose(args[0].(*Chan))
		return nil
	case "delete":
		mp := args[0].(*Map)
		if mp != nil {
			m.mapDelete(mp, args[1])
		}
		return nil
	case "clear":
		switch x := args[0].(type) {
		case *Map:
			if x != nil {
				x.Keys, x.Vals = nil, nil
			}
		case Slice:
			if len(x) > 0 {
				et := fn.Type().(*types.Signature).Params().At(0).Type().Underlying().(*types.Slice).Elem()
				for i := range x {
					x[i] = m.zero(et)
				}
			}
		}
		return nil
	case "print", "println":
		return nil
	case "len":
		switch x := args[0].(type) {
		case Str:
			return m.i64(int64(x.Len()))
		case Array:
			return m.i64(int64(len(x)))
		case *Value:
			if x == nil {
				// len of nil *array is the array length: get from type
				at := deref(fn.Type().(*types.Signature).Params().At(0).Type()).Underlying().(*types.Array)
				return m.i64(at.Len())
			}
			return m.i64(int64(len((*x).(Array))))
		case Slice:
			return m.i64(int64(len(x)))
		case *Map:
			if x == nil {
				return m.i64(0)
			}
			return m.i64(int64(len(x.Keys)))
		case *Chan:
			if x == nil {
				return m.i64(0)
			}
			return m.i64(int64(len(x.buf)))
		}
	case "cap":
		switch x := args[0].(type) {
		case Array:
			return m.i64(int64(len(x)))
		case *Value:
			return m.i64(int64(len((*x).(Array))))
		case Slice:
			return m.i64(int64(cap(x)))
		case *Chan:
			if x == nil {
				return m.i64(0)
			}
			return m.i64(int64(x.cap))
		}
	case "min", "max":
		isMin := fn.Name() == "min"
		acc := args[0]
		for _, a := range args[1:] {
			switch x := acc.(type) {
			case *sym.Term:
				y := a.(*sym.Term)
				pt := fn.Type().(*types.Signature).Params().At(0).Type()
				var lt *sym.Term
				if isSigned(pt) {
					lt = m.F.Bin(sym.OSLT, y, x)
				} else {
					lt = m.F.Bin(sym.OULT, y, x)
				}
				if isMin {
					acc = m.F.Ite(lt, y, x)
				} else {
					acc = m.F.Ite(lt, x, y)
				}
			case *FloatV:
				acc = m.floatMinMax(isMin, x, a.(*FloatV))
			case Str:
				y := a.(Str)
				lt := m.strLess(y, x)
				if m.branch(lt) == isMin {
					acc = y
				}
			}
		}
		return acc
	case "panic":
		panic(targetPanic{v: args[0], pos: m.position(pos)})
	case "recover":
		return m.doRecover(caller)
	case "ssa:wrapnilchk":
		recv := args[0]
		if p, ok := recv.(*Value); ok && p == nil {
			panic(m.goPanic(fmt.Sprintf("value method %s.%s called using nil pointer", m.concStr(args[1]), m.concStr(args[2]))))
		}
		return recv
	case "ssa:deferstack":
		return &caller.defers
	case "SliceData":
		sl := args[0].(Slice)
		if sl == nil {
			return (*Value)(nil)
		}
		return UPtr{Sl: sl[:len(sl):cap(sl)], Kind: 2}
	case "StringData":
		st := m.strOf(args[0])
		return UPtr{Str: &st, Kind: 1}
	case "String":
		n := int(m.concInt(args[1], "unsafe.String len"))
		switch p := args[0].(type) {
		case UPtr:
			switch p.Kind {
			case 2:
				return mkStr(m.sliceBytes(p.Sl[:n]))
			case 1:
				return m.strSlice(*p.Str, 0, n)
			}
			if n == 0 {
				return Str{}
			}
		case *Value:
			if n == 0 {
				return Str{}
			}
			if p != nil {
				// p points into a []Value backing array (element of a slice or array): take n consecutive cells
				return mkStr(m.sliceBytes(Slice(unsafe.Slice(p, n))))
			}
		}
	case "Slice":
		n := int(m.concInt(args[1], "unsafe.Slice len"))
		if p, ok := args[0].(UPtr); ok {
			switch p.Kind {
			case 2:
				return p.Sl[:n]
			case 1:
				bs := m.strBytes(m.strSlice(*p.Str, 0, n))
				out := make(Slice, n)
				for i := range out {
					out[i] = bs[i]
				}
				return out
			}
		}
		if n == 0 {
			return Slice(nil)
		}
	}
	panic(unsupported("builtin " + fn.Name() + fmt.Sprintf(" (%T)", args[0])))
}

// growSlice returns dst extended by n elements (Go-like capacity growth; reuses capacity when available).
func (m *Machine) growSlice(dst Slice, n int, et types.Type) Slice {
	need := len(dst) + n
	if need <= cap(dst) {
		return dst[:need]
	}
	nc := cap(dst) * 2
	if nc < need || et == nil {
		nc = need
	}
	out := make(Slice, nc)
	copy(out, dst)
	for i := need; i < nc; i++ {
		out[i] = m.zero(et)
	}
	return out[:need]
}

var _ = math.MaxInt64

// divByConst encodes x / c and x % c (c a non-zero constant) by their defining equations
// x = q*c + r, |r| < |c|, sign(r) follows x (Go's truncated division), with q bounded so that q*c
// cannot wrap. Bit-blasting a constant multiplier is far cheaper than a 64-bit divider.
func (m *Machine) divByConst(x, c *sym.Term, signed bool) (q, r *sym.Term) {
	key := fmt.Sprintf("%d/%d/%v", x.ID, c.C, signed)
	if e, ok := m.divCache[key]; ok {
		return e[0], e[1]
	}
	s := x.Sort
	q = m.F.Var(m.freshName("h_q"), s)
	r = m.F.Var(m.freshName("h_r"), s)
	zero := m.F.Const(s, 0)
	if signed {
		cv := c.Int64()
		if cv == -1 {
			q, r = m.F.Neg(x), zero
			m.divCache[key] = [2]*sym.Term{q, r}
			return
		}
		ac := cv
		if ac < 0 {
			ac = -ac
		}
		M := int64(math.MaxInt64 / ac)
		m.addPC(m.F.Eq(x, m.F.Bin(sym.OAdd, m.F.Bin(sym.OMul, q, c), r)))
		m.addPC(m.F.And(m.F.Bin(sym.OSLE, m.i64(-M-1), q), m.F.Bin(sym.OSLE, q, m.i64(M+1))))
		nonneg := m.F.Bin(sym.OSLE, zero, x)
		rpos := m.F.And(m.F.Bin(sym.OSLE, zero, r), m.F.Bin(sym.OSLT, r, m.i64(ac)))
		rneg := m.F.And(m.F.Bin(sym.OSLT, m.i64(-ac), r), m.F.Bin(sym.OSLE, r, zero))
		m.addPC(m.F.Ite(nonneg, rpos, rneg))
	} else {
		M := uint64(math.MaxUint64) / c.C
		m.addPC(m.F.Eq(x, m.F.Bin(sym.OAdd, m.F.Bin(sym.OMul, q, c), r)))
		m.addPC(m.F.Bin(sym.OULE, q, m.bv(64, M)))
		m.addPC(m.F.Bin(sym.OULT, r, c))
	}
	m.divCache[key] = [2]*sym.Term{q, r}
	return
}
